#!/usr/bin/env python3
"""Collect confirmed seeded changes from /tmp/seed-<prop>/m<k>/ into /verif/seeded/<id>/
and write /verif/seeded/INDEX.md.

A seed is kept only when its verify.json (written by seedverify.py) says: the patch
applies, the repository's own suite still passes with it, the demonstration passes
without and fails with it.  meta.json is extended with what was run here and which
checks caught the change.
"""
import glob
import json
import os
import shutil

ROOT = os.path.dirname(os.path.abspath(__file__))
OUT = os.path.join(ROOT, "seeded")


def main():
    os.makedirs(OUT, exist_ok=True)
    rows = []
    for d in sorted(glob.glob("/tmp/seed-C*/m*")) + sorted(glob.glob("/tmp/seed2-C*/m*")) + sorted(glob.glob("/tmp/seed3-C*/m*")):
        vf = os.path.join(d, "verify.json")
        if not os.path.exists(vf) or not os.path.exists(os.path.join(d, "patch.diff")):
            continue
        v = json.load(open(vf))
        prop = v["property"]
        sid = "%s-%s%s" % (prop, "r2" if "/seed2-" in d else "r3" if "/seed3-" in d else "", os.path.basename(d))
        confirmed = bool(v.get("patch_applies") and v.get("demo_passes_without_patch") and v.get("demo_fails_with_patch") and v.get("suite_passes_with_patch"))
        dst = os.path.join(OUT, sid)
        if not confirmed:
            if os.path.isdir(dst):
                shutil.rmtree(dst)
            rows.append((sid, prop, "NOT KEPT", "", "not confirmed: applies=%s demo_without=%s demo_with_fails=%s suite=%s %s" % (
                v.get("patch_applies"), v.get("demo_passes_without_patch"), v.get("demo_fails_with_patch"), v.get("suite_passes_with_patch"), v.get("error") or "")))
            continue
        os.makedirs(dst, exist_ok=True)
        for f in os.listdir(d):
            if f.endswith(".go") or f in ("patch.diff", "DEMO.md"):
                shutil.copyfile(os.path.join(d, f), os.path.join(dst, f if not f.endswith(".go") else f + ".txt"))
        try:
            meta = json.load(open(os.path.join(d, "meta.json")))
        except Exception:
            meta = {}
        # earlier manual results (re-runs after a check was strengthened) are kept
        prev = {}
        if os.path.exists(os.path.join(dst, "meta.json")):
            prev = json.load(open(os.path.join(dst, "meta.json")))
        meta["id"] = sid
        meta["breaks_property"] = prop
        meta["confirmed_here"] = {
            "worktree": "scratch git worktree of /repo HEAD under /tmp (removed afterwards)",
            "demo_cmd": v.get("demo_cmd"),
            "demo_passes_without_patch": True,
            "demo_fails_with_patch": True,
            "repository_suite_passes_with_patch": True,
            "suite_cmd": "cd dnsrocks && go test -ldflags=-checklinkname=0 -vet=off -count=1 <every package that imports a touched package, directly, transitively or from its tests> (dnsserver's TestFBDNSDBBadPathDontWrite run on its own: it leaves a periodic reloader that panics the test binary 10 s later on a loaded machine, also on the unchanged tree); go-cdb-mods' own suite when it is touched. The seeding agent additionally ran the complete baseline suite (see tests_run).",
            "suite_packages": v.get("suite_packages"),
        }
        checks = {}
        for c, r in v.get("checks", {}).items():
            checks[c] = {"tier": "quick", "caught": r["caught"], "exit": r["exit"], "failure_keys": r["keys"][:4], "seconds": r["seconds"],
                         "how": "VERIF_REPO=<worktree with the patch> ./check %s quick" % c}
        hist = prev.get("check_history", [])
        if prev.get("checks") and prev.get("checks") != checks:
            hist.append(prev["checks"])
        meta["checks"] = checks
        if hist:
            meta["check_history"] = hist
        json.dump(meta, open(os.path.join(dst, "meta.json"), "w"), indent=1)
        caught = [c for c, r in checks.items() if r["caught"]]
        missed = [c for c, r in checks.items() if not r["caught"]]
        rows.append((sid, prop, "caught by " + ",".join(caught) if caught else "MISSED by " + ",".join(missed),
                     ";".join(k for c in caught for k in checks[c]["failure_keys"][:2]), meta.get("title", "")[:140]))
    with open(os.path.join(OUT, "INDEX.md"), "w") as f:
        f.write("# Seeded changes (independent sub-agents) and the checks run against them\n\n")
        f.write("Each row: a change to facebookincubator/dns written by a fresh sub-agent that saw only the property text and a scratch worktree;\n")
        f.write("confirmed here (applies, repository suite passes, demonstration fails with it and passes without), then the property's quick check was run\n")
        f.write("against a worktree holding the change.  Details, patch and demonstration: `seeded/<id>/`.\n\n")
        f.write("| id | property | quick check result | failure keys | change |\n|---|---|---|---|---|\n")
        for r in rows:
            f.write("| %s | %s | %s | %s | %s |\n" % r)
    kept = [r for r in rows if r[2] != "NOT KEPT"]
    print("kept %d seeds, %d caught, %d missed, %d not kept" % (len(kept), sum(1 for r in kept if r[2].startswith("caught")), sum(1 for r in kept if r[2].startswith("MISSED")), len(rows) - len(kept)))
    for r in rows:
        if not r[2].startswith("caught"):
            print("  ", r[0], r[2], r[4][:100])


if __name__ == "__main__":
    main()
