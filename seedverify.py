#!/usr/bin/env python3
"""Confirm one seeded change and run the checks against it.

  seedverify.py <seed-dir> <property> [--checks C01,C02] [--skip-suite]

<seed-dir> holds patch.diff, demo_test.go (+helpers), DEMO.md, meta.json as
written by a seeding sub-agent.  Steps, all in a scratch worktree of /repo's
HEAD (never in /repo itself):
  1. the demonstration passes on the unchanged tree,
  2. the patch applies and the tree builds,
  3. the demonstration fails with the patch,
  4. the repository's own test suite still passes with the patch,
  5. `VERIF_REPO=<worktree> ./check <property> quick` - does the check catch it?
Writes <seed-dir>/verify.json and removes the worktree.
"""
import json
import os
import re
import shutil
import subprocess
import sys
import time

ENV = dict(os.environ, GOFLAGS="-mod=mod", GOPROXY="off", GOSUMDB="off", GOTOOLCHAIN="local")
LINK_PKGS = ["./db/...", "./dnsserver/...", "./fbserver/...", "./whoami/...", "./logger/...", "./cmd/dnsrocks/..."]


def sh(cmd, cwd, timeout=3600, env=None):
    p = subprocess.run(cmd, cwd=cwd, shell=True, env=env or ENV, stdout=subprocess.PIPE, stderr=subprocess.STDOUT, text=True, timeout=timeout)
    return p.returncode, p.stdout


def parse_demo(seed):
    md = open(os.path.join(seed, "DEMO.md")).read()
    files = [f for f in os.listdir(seed) if f.endswith(".go")]
    dests = [d for d in re.findall(r"(dnsrocks/[\w\-/\.]+\.go)", md) if d.endswith("_test.go")]
    cmd = None
    for line in md.splitlines():
        if "go test" in line or "go run" in line:
            c = line.strip().strip("`").strip()
            c = re.sub(r"^\$\s*", "", c)
            if "-run" in c or "go run" in c:
                # "cd <repo>/dnsrocks && go test ..." -> the go command only (it is run in dnsrocks/)
                c = re.sub(r"^\(?\s*cd\s+\S+\s*&&\s*", "", c)
                c = re.sub(r"^(export\s+[^;&]+(;|&&)\s*)+", "", c)
                c = c[c.index("go "):] if "go " in c else c
                cmd = c.rstrip(")")
                break
    return files, dests, cmd


def main():
    seed = os.path.abspath(sys.argv[1])
    prop = sys.argv[2]
    checks = [prop]
    skip_suite = "--skip-suite" in sys.argv
    for i, a in enumerate(sys.argv):
        if a == "--checks":
            checks = sys.argv[i + 1].split(",")
    name = os.path.basename(os.path.dirname(seed)) + "-" + os.path.basename(seed)
    wt = "/tmp/vwt-" + name
    tmp = "/tmp/vtmp-" + name
    res = {"seed": seed, "property": prop, "started": time.strftime("%H:%M:%S")}
    recheck = "--recheck" in sys.argv
    if recheck:
        # only step 5 again (after a check was strengthened); steps 1-4 keep their recorded outcome
        res = json.load(open(os.path.join(seed, "verify.json")))
        res.setdefault("checks_history", []).append(res.get("checks"))
    subprocess.run("git -C /repo worktree remove --force %s" % wt, shell=True, stdout=subprocess.DEVNULL, stderr=subprocess.DEVNULL)
    shutil.rmtree(wt, ignore_errors=True)
    shutil.rmtree(tmp, ignore_errors=True)
    os.makedirs(tmp)
    env = dict(ENV, TMPDIR=tmp)
    rc, out = sh("git -C /repo worktree add -q --detach %s HEAD" % wt, "/")
    if rc != 0:
        res["error"] = "worktree: " + out
        return finish(seed, res, wt, tmp)
    if recheck:
        try:
            rc, out = sh("git apply -3 %s" % os.path.join(seed, "patch.diff"), wt)
            if rc != 0:
                res["error"] = "recheck: patch does not apply: " + out[-300:]
                return finish(seed, res, wt, tmp)
            res["checks"] = {}
            for c in checks:
                t0 = time.time()
                rc, out = sh("./check %s quick" % c, "/verif", timeout=3600, env=dict(env, VERIF_REPO=wt))
                keys = re.findall(r"^  key=(\S+)", out, re.M)
                res["checks"][c] = {"exit": rc, "caught": rc == 1, "keys": keys, "seconds": round(time.time() - t0), "output": out[-1500:]}
        except subprocess.TimeoutExpired as e:
            res["error"] = "timeout: %s" % e
        return finish(seed, res, wt, tmp)
    try:
        files, dests, cmd = parse_demo(seed)
        res["demo_cmd"], res["demo_dest"] = cmd, dests[:3]
        if not cmd or not dests:
            res["error"] = "could not parse DEMO.md"
            return finish(seed, res, wt, tmp)
        # place demo files: first .go file -> first destination; further files next to it
        ddir = os.path.dirname(os.path.join(wt, dests[0]))
        placed = []
        gofiles = sorted(files, key=lambda f: (f != "demo_test.go", f))
        for i, f in enumerate(gofiles):
            dst = os.path.join(wt, dests[i]) if i < len(dests) and dests[i].endswith(".go") and i == 0 else os.path.join(ddir, "seed_" + f)
            os.makedirs(os.path.dirname(dst), exist_ok=True)
            shutil.copyfile(os.path.join(seed, f), dst)
            placed.append(dst)
        gocmd = cmd
        if "-count" not in gocmd:
            gocmd = gocmd.replace("go test", "go test -count=1", 1)
        demo_cwd = os.path.join(wt, "dnsrocks")
        if dests[0].startswith("dnsrocks/go-cdb-mods/") and "./" not in gocmd.replace(" .", " "):
            demo_cwd = os.path.join(wt, "dnsrocks", "go-cdb-mods")
        rc, out = sh(gocmd, demo_cwd, timeout=1200, env=env)
        res["demo_passes_without_patch"] = rc == 0
        res["demo_without_tail"] = out[-600:]
        # apply patch
        rc, out = sh("git apply -3 %s" % os.path.join(seed, "patch.diff"), wt)
        res["patch_applies"] = rc == 0
        if rc != 0:
            res["apply_output"] = out[-1500:]
            return finish(seed, res, wt, tmp)
        rc, out = sh("go build ./... 2>&1 | grep -v 'invalid reference to syscall.recvmsg' | grep -v '^# ' ; go vet -tags verif ./db/ ./dnsserver/ ./dnsdata/... 2>&1 | tail -5", os.path.join(wt, "dnsrocks"), env=env)
        res["build_output"] = out[-800:]
        rc, out = sh(gocmd, demo_cwd, timeout=1200, env=env)
        res["demo_fails_with_patch"] = rc != 0
        res["demo_with_tail"] = out[-1200:]
        for f in placed:
            os.remove(f)
        sh("git checkout dnsrocks/go.mod", wt)
        if not skip_suite:
            # the packages whose tests can be affected: those that (transitively) import a touched package
            patch = open(os.path.join(seed, "patch.diff")).read()
            touched = set()
            for m in re.finditer(r"^\+\+\+ b/(dnsrocks/[^\n]+)$", patch, re.M):
                d = os.path.dirname(m.group(1))
                if d.startswith("dnsrocks/go-cdb-mods"):
                    touched.add("github.com/repustate/go-cdb" + d[len("dnsrocks/go-cdb-mods"):])
                else:
                    touched.add("github.com/facebookincubator/dns/" + d)
            rc, out = sh("go list -f '{{.ImportPath}}|{{join .Deps \",\"}}|{{join .TestImports \",\"}}|{{join .XTestImports \",\"}}' ./... 2>/dev/null", os.path.join(wt, "dnsrocks"), env=env)
            affected = []
            for line in out.splitlines():
                parts = line.split("|")
                if len(parts) < 4:
                    continue
                deps = set(parts[1].split(",")) | set(parts[2].split(",")) | set(parts[3].split(",")) | {parts[0]}
                if deps & touched:
                    affected.append(parts[0])
            # test-only imports of affected packages count as well (one more round)
            aff = set(affected)
            for line in out.splitlines():
                parts = line.split("|")
                if len(parts) >= 4 and (set(parts[2].split(",")) | set(parts[3].split(","))) & aff:
                    aff.add(parts[0])
            affected = sorted(aff)
            res["suite_packages"] = affected
            ok = True
            log = ""
            f2 = []
            rest = [p for p in affected if not p.endswith("/dnsserver")]
            cmds = []
            if rest:
                cmds.append("go test -ldflags=-checklinkname=0 -vet=off -count=1 " + " ".join(rest))
            if any(p.endswith("/dnsserver") for p in affected):
                # TestFBDNSDBBadPathDontWrite leaves a periodic reloader on a handler without database, which
                # panics 10 s later if the test binary is still running (a flake of the unchanged tree on a
                # loaded machine): run that test on its own and the rest without it
                cmds.append("go test -ldflags=-checklinkname=0 -vet=off -count=1 -skip 'TestFBDNSDBBadPathDontWrite' ./dnsserver/")
                cmds.append("go test -ldflags=-checklinkname=0 -vet=off -count=1 -run '^TestFBDNSDBBadPathDontWrite$' ./dnsserver/")
            for cmdline in cmds:
                for attempt in range(3):
                    rc, out2 = sh(cmdline + " 2>&1 | grep -v 'no test files'", os.path.join(wt, "dnsrocks"), timeout=2400, env=env)
                    bad = [l for l in out2.splitlines() if l.startswith("FAIL") or l.startswith("--- FAIL") or l.startswith("panic:")]
                    timing = "TestReloadFullTimeout" in out2 or "TestReloadPartialTimeout" in out2
                    if not bad or not timing:
                        break
                log += "\n$ " + cmdline + "\n" + out2[-1000:]
                f2 += bad
            if any("go-cdb" in t for t in touched):
                rc, out2 = sh("go test -count=1 ./... 2>&1 | grep -v 'no test files'", os.path.join(wt, "dnsrocks", "go-cdb-mods"), timeout=600, env=env)
                log += "\n" + out2[-600:]
                if "FAIL" in out2:
                    f2.append("go-cdb-mods")
            if f2:
                ok = False
            res["suite_passes_with_patch"] = ok
            res["suite_failures"] = f2[:10]
            res["suite_tail"] = log[-3000:]
            sh("git checkout dnsrocks/go.mod", wt)
        # run the checks
        res["checks"] = {}
        for c in checks:
            t0 = time.time()
            rc, out = sh("./check %s quick" % c, "/verif", timeout=3600, env=dict(env, VERIF_REPO=wt))
            keys = re.findall(r"^  key=(\S+)", out, re.M)
            res["checks"][c] = {"exit": rc, "caught": rc == 1, "keys": keys, "seconds": round(time.time() - t0), "output": out[-1500:]}
    except subprocess.TimeoutExpired as e:
        res["error"] = "timeout: %s" % e
    return finish(seed, res, wt, tmp)


def finish(seed, res, wt, tmp):
    res["finished"] = time.strftime("%H:%M:%S")
    json.dump(res, open(os.path.join(seed, "verify.json"), "w"), indent=1)
    subprocess.run("git -C /repo worktree remove --force %s" % wt, shell=True, stdout=subprocess.DEVNULL, stderr=subprocess.DEVNULL)
    shutil.rmtree(wt, ignore_errors=True)
    shutil.rmtree(tmp, ignore_errors=True)
    summary = {k: res.get(k) for k in ("demo_passes_without_patch", "patch_applies", "demo_fails_with_patch", "suite_passes_with_patch", "error")}
    summary["checks"] = {c: (v["caught"], v["keys"][:2]) for c, v in res.get("checks", {}).items()}
    print(os.path.basename(os.path.dirname(seed)), os.path.basename(seed), json.dumps(summary))


if __name__ == "__main__":
    main()
