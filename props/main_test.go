package props

import (
	"flag"
	"io"
	"log"
	"os"
	"testing"

	"github.com/golang/glog"

	"verif/kit"
)

// One process runs one property (selected with -test.run by the driver) for
// one shard; statistics are flushed for the driver to merge.
func TestMain(m *testing.M) {
	flag.Parse()
	log.SetOutput(io.Discard)
	// glog (used by the code under test) must not flood stderr: send it to
	// files in the scratch directory the driver removes afterwards.
	_ = flag.Set("logtostderr", "false")
	_ = flag.Set("alsologtostderr", "false")
	_ = flag.Set("stderrthreshold", "FATAL")
	_ = flag.Set("log_dir", kit.OutDir())
	code := m.Run()
	glog.Flush()
	kit.Flush(os.Getenv("VERIF_PROP"))
	os.Exit(code)
}
