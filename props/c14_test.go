package props

import (
	"fmt"
	"os"
	"runtime"
	"sync"
	"sync/atomic"
	"testing"
	"time"

	"github.com/facebookincubator/dns/dnsrocks/dnsdata/rdb"

	"pgregory.net/rapid"

	"verif/kit"
)

// C14: serving and reloading concurrently is free of data races, crashes
// and deadlocks (run under the Go race detector).

func genStressCfg(t *rapid.T, semantic bool, millis int) stressCfg {
	cfg := stressCfg{Semantic: semantic, Millis: millis}
	cfg.Backend = rapid.SampledFrom(kit.AllBackends).Draw(t, "backend").String()
	cfg.Workers = rapid.SampledFrom([]int{2, 3, 4, 8, 16}).Draw(t, "workers")
	cfg.Cache = rapid.Bool().Draw(t, "cache")
	nk := rapid.IntRange(1, 4).Draw(t, "nkinds")
	for i := 0; i < nk; i++ {
		cfg.Reloads = append(cfg.Reloads, rapid.SampledFrom([]string{"partial", "partial", "full-ok", "full-ok", "missing", "nokey", "garbage"}).Draw(t, "kind"))
	}
	if !semantic && rapid.Bool().Draw(t, "with-timeouts") {
		// (only without the generation invariants: a timed-out RocksDB catch-up that still
		// takes effect is the listed C05 finding)
		cfg.Reloads = append(cfg.Reloads, "partial-timeout")
	}
	good := false
	for _, k := range cfg.Reloads {
		if k == "partial" || k == "full-ok" || k == "partial-timeout" {
			good = true
		}
	}
	if !good {
		cfg.Reloads = append(cfg.Reloads, "partial")
	}
	nw := rapid.IntRange(1, 4).Draw(t, "nqlists")
	for i := 0; i < nw; i++ {
		cfg.Queries = append(cfg.Queries, rapid.SliceOfN(rapid.IntRange(0, len(kit.StampQueries)-1), 1, 8).Draw(t, "qlist"))
		cfg.ECS = append(cfg.ECS, rapid.Bool().Draw(t, "ecs"))
	}
	return cfg
}

func TestC14(t *testing.T) {
	if f := kit.ReplayFile(); f != "" {
		var c stressCfg
		kit.LoadReplay(t, f, &c)
		for i := 0; i < 5; i++ {
			stressRun(t, "C14", c)
			kit.Eval()
		}
		return
	}
	// overlapping catch-ups on one RocksDB secondary with concurrent closest-key readers
	for i, b := range []kit.Backend{kit.RDBv1, kit.RDBv2} {
		if (kit.Shard()+i)%2 == 0 || kit.NShards() == 1 {
			c14CatchUpStress(t, b, 4, kit.Pick(150, 1500))
			kit.Eval()
			kit.Class("concurrent-catch-up:" + b.String())
			kit.NonTrivial(fmt.Sprintf("concurrent-catch-up|%s|%d", b, kit.Shard()))
		}
	}
	millis := kit.Pick(3000, 12000)
	kit.SetRapid(kit.N(16, 200))
	rapid.Check(t, kit.Prop("C14", func(t *rapid.T) {
		cfg := genStressCfg(t, false, millis)
		kit.Case(cfg)
		res := stressRun(t, "C14", cfg)
		kit.ClassN("queries", res.Queries)
		kit.ClassN("reloads", res.Reloads)
		kit.ClassN("queries-overlapping-a-reload", res.Overlapped)
		kit.Class("backend:" + cfg.Backend)
		if res.Overlapped >= 10 {
			kit.NonTrivial(fmt.Sprintf("%s|%d|%v|%v", cfg.Backend, cfg.Workers, cfg.Reloads, cfg.Cache))
		}
		kit.SampleForce(map[string]interface{}{"config": cfg, "queries": res.Queries, "reloads": res.Reloads, "overlapped": res.Overlapped})
	}))
}

// c14CatchUpStress: overlapping catch-ups of one RocksDB secondary (what timed-out
// partial reloads amount to) while readers use the closest-key search, i.e. the
// iterator pool being disabled / refilled by several goroutines at once.
func c14CatchUpStress(t kit.Fataler, b kit.Backend, catchers, rounds int) {
	cfg := stressCfg{Backend: b.String(), Workers: catchers, Millis: rounds, Reloads: []string{"concurrent-catch-up"}}
	dir := kit.Scratch("c14pool")
	defer os.RemoveAll(dir)
	p, err := kit.Compile(kit.StampText(1, true), 1, dir, b, kit.DefaultCompile)
	if err != nil {
		kit.Fail(t, "C14", "setup-error", cfg, "compile: %v", err)
		return
	}
	r, err := rdb.NewReader(p)
	if err != nil {
		kit.Fail(t, "C14", "setup-error", cfg, "open: %v", err)
		return
	}
	var progress, lookups int64 // catch-ups completed, lookups completed
	var firstErr atomic.Value
	stop := make(chan struct{})
	var readers, catch sync.WaitGroup
	for g := 0; g < 4; g++ {
		readers.Add(1)
		go func(g int) {
			defer readers.Done()
			key := append([]byte("\x00o\x03com\x07example\x03www\x00"), 0, 0)
			for {
				select {
				case <-stop:
					return
				default:
				}
				ctx := rdb.NewContext()
				if _, _, err := r.FindClosest(key, ctx); err != nil {
					firstErr.CompareAndSwap(nil, fmt.Sprintf("FindClosest: %v", err))
					return
				}
				atomic.AddInt64(&lookups, 1)
			}
		}(g)
	}
	for g := 0; g < catchers; g++ {
		catch.Add(1)
		go func() {
			defer catch.Done()
			for i := 0; i < rounds; i++ {
				if err := r.CatchWithPrimary(); err != nil {
					firstErr.CompareAndSwap(nil, fmt.Sprintf("CatchWithPrimary: %v", err))
					return
				}
				atomic.AddInt64(&progress, 1)
			}
		}()
	}
	done := make(chan struct{})
	go func() { catch.Wait(); close(stop); readers.Wait(); close(done) }()
	// both kinds of goroutine must keep making progress until the catch-ups are done
	last, lastChange := int64(-1), time.Now()
	lastL, lastLChange := int64(-1), time.Now()
	for finished := false; !finished; {
		select {
		case <-done:
			finished = true
		case <-time.After(100 * time.Millisecond):
			if n := atomic.LoadInt64(&progress); n != last {
				last, lastChange = n, time.Now()
			}
			if n := atomic.LoadInt64(&lookups); n != lastL {
				lastL, lastLChange = n, time.Now()
			}
			stuck := ""
			if time.Since(lastChange) > 60*time.Second {
				stuck = "no catch-up completed for 60 s"
			} else if time.Since(lastLChange) > 60*time.Second && firstErr.Load() == nil {
				stuck = "no closest-key lookup completed for 60 s"
			}
			if stuck != "" {
				buf := make([]byte, 1<<20)
				buf = buf[:runtime.Stack(buf, true)]
				kit.Fail(t, "C14", "deadlock/"+b.String(), cfg, "overlapping catch-ups: %s (%d catch-ups, %d lookups done); goroutines:\n%s", stuck, last, lastL, buf)
			}
		}
	}
	_ = r.Close()
	if e := firstErr.Load(); e != nil {
		kit.Fail(t, "C14", "catch-up-error/"+b.String(), cfg, "%v", e)
	}
}
