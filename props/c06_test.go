package props

import (
	"fmt"
	"strings"
	"sync"
	"sync/atomic"
	"testing"
	"time"

	"github.com/facebookincubator/dns/dnsrocks/db"
	"github.com/facebookincubator/dns/dnsrocks/dnsserver"
	"github.com/facebookincubator/dns/dnsrocks/dnsserver/stats"
	"pgregory.net/rapid"

	"verif/kit"
)

// C06: no backend is used after close, closed twice, or leaked.

var c06Ops = []string{"acquire", "use", "release", "reload-new-ok", "reload-same-ok", "reload-open-error", "reload-new-nokey", "reload-same-nokey", "reload-timeout-late-ok", "reload-timeout-late-err", "shutdown", "reload-timeout-late-same", "query", "reload-new-racy-timeout"}

type c06Case struct {
	Ops    []int    `json:"ops"`    // indices into c06Ops
	Reader []int    `json:"reader"` // which live reader a use/release refers to
	Names  []string `json:"names"`  // readable form
	Events []string `json:"events,omitempty"`
}

// reloads scripted to time out use a timeout that is certain to fire against a
// backend that blocks until released; all other reloads get one that cannot
// fire, however loaded the machine is
const (
	c06Timeout     = 25 * time.Millisecond
	c06LongTimeout = 10 * time.Minute
)

type c06Reader struct {
	r       db.Reader
	backend *kit.FakeBackend
}

// c06Run executes one operation sequence against FBDNSDB with the fake
// backend and checks the invariants after every step and at quiescence.
// Operations that are not enabled in the current state are skipped.
func c06Run(t kit.Fataler, ops []int, readerIdx []int, record bool) {
	cs := c06Case{Ops: ops, Reader: readerIdx}
	for _, o := range ops {
		cs.Names = append(cs.Names, c06Ops[o])
	}
	fw, b0 := kit.NewFakeWorld()
	h, err := dnsserver.NewFBDNSDBBasic(dnsserver.HandlerConfig{}, dnsserver.DBConfig{Path: "same", Driver: "fake", ReloadTimeout: c06Timeout, ValidationKey: fw.VKey}, dnsserver.CacheConfig{Enabled: true, LRUSize: 8}, &dnsserver.DummyLogger{}, &stats.DummyStats{})
	if err != nil {
		kit.Fail(t, "C06", "setup-error", cs, "%v", err)
		return
	}
	h.VerifSetDB(db.NewDBWithBackend(b0))
	served := b0
	var live []c06Reader
	var blocked []string // gated reload paths not yet released
	shutdown := false
	lostKey := map[int]bool{}
	seq := 0
	var executed []string
	fail := func(key, format string, a ...interface{}) {
		cs.Events, _ = fw.Snapshot()
		kit.Fail(t, "C06", key, cs, format+"\nexecuted: %v\nevents: %v", append(a, executed, cs.Events)...)
	}
	check := func(step string) {
		_, v := fw.Snapshot()
		if len(v) > 0 {
			key := strings.SplitN(v[0], ":", 2)[0]
			fail(key, "after %s: %s", step, v[0])
		}
		if !shutdown && served.Closed() > 0 {
			fail("served-backend-closed", "after %s: backend b%d is still the served one but has been closed", step, served.ID)
		}
		for i, r := range live {
			if r.backend.Closed() > 0 {
				fail("pinned-backend-closed", "after %s: live reader %d still holds backend b%d, which has been closed", step, i, r.backend.ID)
			}
		}
	}
	sawReloadWithReader, sawFailing := false, false
	for i, o := range ops {
		name := c06Ops[o]
		ri := 0
		if i < len(readerIdx) {
			ri = readerIdx[i]
		}
		switch name {
		case "acquire":
			if shutdown || len(live) >= 3 {
				continue
			}
			r, err := h.AcquireReader()
			if err != nil {
				fail("acquire-error", "AcquireReader: %v", err)
			}
			live = append(live, c06Reader{r, served})
		case "use":
			if len(live) == 0 {
				continue
			}
			_ = live[ri%len(live)].r.ForEach([]byte("k"), func([]byte) error { return nil })
		case "release":
			if len(live) == 0 {
				continue
			}
			k := ri % len(live)
			live[k].r.Close()
			live = append(live[:k], live[k+1:]...)
		case "query":
			// a real query through the handler (the second identical one is a cache hit)
			if shutdown {
				continue
			}
			resp, _, qerr := kit.Ask(h, kit.Query{Name: "www.example.com.", Type: 1, Class: 1, MaxAns: 1}, kit.Client{Resolver: "192.0.2.9"})
			if qerr != nil || resp == nil || len(resp.Answer) != 1 {
				fail("query-failed", "query through the handler: %v %s", qerr, kit.Brief(resp))
			}
		case "shutdown":
			if shutdown {
				continue
			}
			h.Close()
			shutdown = true
		default: // reloads
			if shutdown {
				continue
			}
			seq++
			var path string
			gated, racy := false, false
			switch name {
			case "reload-new-ok":
				path = fmt.Sprintf("new-ok#%d", seq)
			case "reload-same-ok":
				path = "same"
			case "reload-open-error":
				path = fmt.Sprintf("err#%d", seq)
			case "reload-new-nokey":
				path = fmt.Sprintf("new-nokey#%d", seq)
			case "reload-same-nokey":
				path = "same-losekey"
			case "reload-timeout-late-ok":
				path, gated = fmt.Sprintf("block-new-ok#%d", seq), true
			case "reload-timeout-late-err":
				path, gated = fmt.Sprintf("block-err#%d", seq), true
			case "reload-timeout-late-same":
				// a catch-up that overruns the timeout and then succeeds on the same backend
				path, gated = fmt.Sprintf("block-same#%d", seq), true
			case "reload-new-racy-timeout":
				// a 1 ns timeout against a backend that opens at once: the timeout may fire
				// before the reload goroutine has even started, or just as the open completes;
				// whichever result comes back is taken as it is
				path, racy = fmt.Sprintf("new-ok#%d", seq), true
			}
			if len(live) > 0 {
				sawReloadWithReader = true
			}
			if name != "reload-new-ok" && name != "reload-same-ok" {
				sawFailing = true
			}
			switch {
			case racy:
				h.VerifSetReloadTimeout(time.Nanosecond)
			case gated:
				h.VerifSetReloadTimeout(c06Timeout)
			default:
				h.VerifSetReloadTimeout(c06LongTimeout)
			}
			rerr := h.Reload(*dnsserver.NewFullReloadSignal(path))
			if gated && (rerr == nil || !strings.Contains(rerr.Error(), "timeout")) {
				fail("timeout-not-reported", "reload %s against a blocked backend returned %v", path, rerr)
			}
			if gated {
				blocked = append(blocked, path)
			}
			if racy && rerr != nil {
				// timed out: the backend may still be opened late; it must then be closed again
				// (checked at quiescence), nothing else changes
				executed = append(executed, name+"(timed out)")
				check(name)
				continue
			}
			switch {
			case rerr == nil && strings.HasPrefix(path, "new-ok"):
				served = fw.CreatedBy(path)
			case rerr == nil && path == "same":
			case rerr == nil:
				fail("bad-reload-accepted", "reload %s returned nil", path)
			case name == "reload-same-nokey":
				// the served backend lost its key: the reload is rejected and the
				// server keeps serving from the backend it has
			}
			if name == "reload-same-nokey" {
				lostKey[served.ID] = true
			}
			if name == "reload-same-ok" && lostKey[served.ID] {
				// the served backend no longer has the validation key: rejecting is right
				if rerr == nil {
					fail("bad-reload-accepted", "catch-up of a backend without the validation key was accepted")
				}
			} else if rerr != nil && (name == "reload-new-ok" || name == "reload-same-ok") {
				fail("good-reload-failed", "reload %s: %v", path, rerr)
			}
		}
		executed = append(executed, name)
		check(name)
	}
	// quiescence: release readers, let blocked reloads finish, shut down
	for _, r := range live {
		r.r.Close()
	}
	live = nil
	check("release-all")
	for _, p := range blocked {
		close(fw.Gate(p))
	}
	for _, p := range blocked {
		if !kit.WaitFor(10*time.Second, func() bool { return fw.Returned(p) }) {
			fail("harness-error", "blocked reload %s never returned", p)
		}
	}
	if !shutdown {
		h.Close()
		shutdown = true
	}
	// every backend ever opened must end up closed exactly once
	ok := kit.WaitFor(5*time.Second, func() bool {
		for _, b := range fw.Backends {
			if b.Closed() != 1 {
				return false
			}
		}
		return true
	})
	_, v := fw.Snapshot()
	if len(v) > 0 {
		fail(strings.SplitN(v[0], ":", 2)[0], "at quiescence: %s", v[0])
	}
	if !ok {
		var leaked []string
		for _, b := range fw.Backends {
			if b.Closed() != 1 {
				leaked = append(leaked, fmt.Sprintf("b%d closed %d times", b.ID, b.Closed()))
			}
		}
		fail("leak", "at quiescence (all readers released, server shut down, late reloads finished): %v", leaked)
	}
	if record && (sawReloadWithReader || sawFailing) {
		kit.NonTrivial(strings.Join(executed, ","))
	}
}

func TestC06(t *testing.T) {
	if f := kit.ReplayFile(); f != "" {
		var c c06Case
		kit.LoadReplay(t, f, &c)
		c06Run(t, c.Ops, c.Reader, false)
		kit.Eval()
		return
	}
	// exhaustive: all operation sequences up to the depth bound (operations
	// not enabled in a state are skipped, so shorter effective histories are
	// covered as well); at most two timeout operations per sequence
	depth := kit.Pick(4, 5)
	n := len(c06Ops)
	total := 1
	for i := 0; i < depth; i++ {
		total *= n
	}
	var cnt int64
	seq := make([]int, depth)
	for code := 0; code < total; code++ {
		if code%kit.NShards() != kit.Shard() {
			continue
		}
		c := code
		timeouts := 0
		for i := 0; i < depth; i++ {
			seq[i] = c % n
			c /= n
			if seq[i] == 8 || seq[i] == 9 || seq[i] == 11 {
				timeouts++
			}
		}
		if timeouts > 2 {
			continue
		}
		c06Run(t, append([]int(nil), seq...), nil, true)
		cnt++
	}
	kit.EvalN(cnt)
	kit.ClassN(fmt.Sprintf("exhaustive-depth-%d", depth), cnt)
	kit.SetExhaustive()
	kit.SampleForce(c06Case{Names: []string{"acquire", "reload-new-ok", "use", "release"}})
	// concurrent phase: readers acquire / use / release in three goroutines while the
	// main goroutine reloads to new backends; the instrumented backends record any use
	// after close or second close (a reader created outside the reload lock shows here)
	for round := 0; round < kit.Pick(3, 30); round++ {
		c06Concurrent(t, 150*time.Millisecond)
		kit.Eval()
		kit.Class("concurrent-readers-vs-reloads")
	}
	// random long histories
	kit.SetRapid(kit.N(4000, 60000))
	rapid.Check(t, kit.Prop("C06", func(t *rapid.T) {
		k := rapid.IntRange(5, 40).Draw(t, "len")
		ops := make([]int, k)
		rdr := make([]int, k)
		nt := 0
		for i := range ops {
			ops[i] = rapid.SampledFrom([]int{0, 0, 0, 1, 1, 2, 2, 3, 3, 4, 4, 5, 6, 7, 8, 9, 10, 11, 12, 12, 13, 13}).Draw(t, "op")
			rdr[i] = rapid.IntRange(0, 2).Draw(t, "reader")
			if ops[i] == 8 || ops[i] == 9 || ops[i] == 11 {
				nt++
				if nt > 3 {
					ops[i] = 3
				}
			}
			if ops[i] == 10 && i < k-3 {
				ops[i] = 0 // keep shutdown near the end
			}
		}
		cs := c06Case{Ops: ops, Reader: rdr}
		kit.Case(cs)
		c06Run(t, ops, rdr, true)
		kit.Sample(cs)
		kit.Class("random-history")
	}))
}

func c06Concurrent(t kit.Fataler, d time.Duration) {
	cs := c06Case{Names: []string{"concurrent: 3 reader goroutines vs. back-to-back reload-new-ok"}}
	fw, b0 := kit.NewFakeWorld()
	h, err := dnsserver.NewFBDNSDBBasic(dnsserver.HandlerConfig{}, dnsserver.DBConfig{Path: "same", Driver: "fake", ReloadTimeout: c06LongTimeout, ValidationKey: fw.VKey}, dnsserver.CacheConfig{}, &dnsserver.DummyLogger{}, &stats.DummyStats{})
	if err != nil {
		kit.Fail(t, "C06", "setup-error", cs, "%v", err)
		return
	}
	h.VerifSetDB(db.NewDBWithBackend(b0))
	stop := make(chan struct{})
	var wg sync.WaitGroup
	var acquireErr atomic.Value
	for g := 0; g < 3; g++ {
		wg.Add(1)
		go func() {
			defer wg.Done()
			for {
				select {
				case <-stop:
					return
				default:
				}
				r, err := h.AcquireReader()
				if err != nil {
					acquireErr.Store(err)
					return
				}
				_ = r.ForEach([]byte("k"), func([]byte) error { return nil })
				r.Close()
			}
		}()
	}
	deadline := time.Now().Add(d)
	n := 0
	for time.Now().Before(deadline) {
		n++
		if err := h.Reload(*dnsserver.NewFullReloadSignal(fmt.Sprintf("new-ok#%d", n))); err != nil {
			kit.Fail(t, "C06", "good-reload-failed", cs, "concurrent phase: %v", err)
		}
	}
	close(stop)
	wg.Wait()
	h.Close()
	if e := acquireErr.Load(); e != nil {
		kit.Fail(t, "C06", "acquire-error", cs, "concurrent phase: AcquireReader: %v", e)
	}
	ok := kit.WaitFor(5*time.Second, func() bool {
		for _, b := range fw.Backends {
			if b.Closed() != 1 {
				return false
			}
		}
		return true
	})
	ev, v := fw.Snapshot()
	if len(v) > 0 {
		if len(ev) > 60 {
			ev = ev[len(ev)-60:]
		}
		cs.Events = ev
		kit.Fail(t, "C06", strings.SplitN(v[0], ":", 2)[0]+"/concurrent", cs, "readers concurrent with %d reloads: %s (last events: %v)", n, v[0], ev)
	}
	if !ok {
		kit.Fail(t, "C06", "leak/concurrent", cs, "readers concurrent with %d reloads: not every backend was closed exactly once", n)
	}
}
