package props

import (
	"fmt"
	"os"
	"testing"

	"pgregory.net/rapid"

	"verif/kit"
)

// C01: served answers are exactly what the data file declares.

type c01Case struct {
	Text    string     `json:"text"`
	World   *kit.World `json:"world"`
	Backend string     `json:"backend"`
	Query   kit.Query  `json:"query"`
	Client  kit.Client `json:"client"`
	Loc     string     `json:"oracle_location"`
	Class   string     `json:"oracle_class"`
	Got     string     `json:"got,omitempty"`
}

var c01Focus = -1

type c01Q struct {
	q kit.Query
	c kit.Client
}

// c01Run executes the queries against the three backends and compares each
// response with the reference resolver.
func c01Run(t kit.Fataler, w *kit.World, qs []c01Q, record bool) {
	text := w.Text()
	served, cleanup, err := kit.ServeAll(text, w.Serial, kit.AllBackends, kit.DefaultCompile, kit.HandlerOpts{})
	if err != nil {
		kit.Fail(t, "C01", "compile-error", c01Case{Text: string(text), World: w}, "a well-formed file failed to compile or open: %v", err)
		return
	}
	defer cleanup()
	if c01Focus >= 0 {
		// while shrinking, look at the backend that failed first
		for i, s := range served {
			if int(s.Backend) == c01Focus {
				served[0], served[i] = served[i], served[0]
			}
		}
	}
	for _, x := range qs {
		lr := w.Locate(x.q.Name, x.c)
		e := w.Resolve(x.q, lr.Loc)
		if e.Undefined != "" {
			kit.Class("skipped:" + e.Undefined)
			continue
		}
		for _, s := range served {
			resp, _, err := kit.Ask(s.H, x.q, x.c)
			c := c01Case{Text: string(text), World: w, Backend: s.Backend.String(), Query: x.q, Client: x.c, Loc: fmt.Sprintf("%q", lr.Loc[:]), Class: e.Class, Got: kit.Brief(resp)}
			if err != nil {
				kit.Fail(t, "C01", "handler-error/"+s.Backend.String(), c, "handler returned an error: %v", err)
			}
			if key, msg := kit.CompareExpect(resp, x.q, e); key != "" {
				c01Focus = int(s.Backend)
				kit.Fail(t, "C01", key+"/"+e.Class+"/"+s.Backend.String(), c, "%s: %s %d from %s: %s; response: %s", s.Backend, x.q.Name, x.q.Type, x.c.Resolver, msg, kit.Brief(resp))
			}
			if record {
				locClass := "noloc"
				if lr.Loc != [2]byte{} {
					locClass = "loc"
					if lr.ViaECS {
						locClass = "loc-ecs"
					}
				}
				kit.Class("outcome:" + e.Class)
				if e.Class != "refused" {
					kit.NonTrivial(fmt.Sprintf("%s|%d|%s|%s|%v|", e.Class, x.q.Type, locClass, s.Backend, e.Wildcard) + string(text) + x.q.Name)
				}
			}
		}
	}
}

func TestC01(t *testing.T) {
	if f := kit.ReplayFile(); f != "" {
		var c c01Case
		kit.LoadReplay(t, f, &c)
		c01Run(t, c.World, []c01Q{{c.Query, c.Client}}, false)
		kit.Eval()
		return
	}
	if kit.Shard() == 0 {
		runRegressions(t, func(t kit.Fataler, w *kit.World, q kit.Query, c kit.Client) {
			c01Run(t, w, []c01Q{{q, c}}, true)
		})
	}
	if os.Getenv("VERIF_ONLY_REGRESS") != "" {
		return
	}
	kit.SetRapid(kit.N(480, 12000))
	rapid.Check(t, kit.Prop("C01", func(t *rapid.T) {
		w := kit.GenWorld(t, kit.GenOpts{})
		names := kit.QueryNames(w)
		nq := rapid.IntRange(10, 40).Draw(t, "nq")
		qs := make([]c01Q, nq)
		for i := range qs {
			qs[i] = c01Q{kit.GenQuery(t, w, names), kit.GenClient(t)}
		}
		kit.Case(c01Case{Text: string(w.Text()), World: w})
		c01Run(t, w, qs, true)
		kit.ClassN("queries", int64(nq))
		kit.Sample(map[string]interface{}{"data": string(w.Text()), "first_query": qs[0].q, "client": qs[0].c})
	}))
}
