package props

import (
	"strings"

	"verif/kit"
)

// Hand-minimised cases of defects that the generated campaigns found on the
// pinned tree (each repaired by a "fix:" commit, see known_findings.json).
// They are re-run first on every C01/C02 run as a seconds-long replay tier.

type regressCase struct {
	Name   string
	Lines  []kit.Line
	Query  kit.Query
	Client kit.Client
}

var none5 = [5]int64{-1, -1, -1, -1, -1}

func ln(k byte, owner string, mod func(*kit.Line)) kit.Line {
	l := kit.Line{K: k, Owner: owner, TTL: -1, N: none5}
	if mod != nil {
		mod(&l)
	}
	return l
}

var k63 = strings.Repeat("k", 63)

var regressions = []regressCase{
	{
		Name: "rdb-range-point-of-other-map",
		Lines: []kit.Line{
			ln('.', "a.org", func(l *kit.Line) { l.X = "a" }),
			ln('+', "x.a.org", func(l *kit.Line) { l.IP = "192.0.2.1"; l.Loc = "l1" }),
			ln('M', "x.a.org", func(l *kit.Line) { l.MapID = "m2" }),
			ln('%', "", func(l *kit.Line) { l.Loc = "l1"; l.CIDR = "0.0.0.0/0"; l.MapID = "m1" }),
			ln('%', "", func(l *kit.Line) { l.Loc = "l1"; l.CIDR = "::/0"; l.MapID = "m1" }),
		},
		Query:  kit.Query{Name: "x.a.org.", Type: 1, Class: 1, MaxAns: 1},
		Client: kit.Client{Resolver: "10.0.0.1"},
	},
	{
		Name: "cdb-key-length-96-191",
		Lines: []kit.Line{
			ln('.', "a.org", func(l *kit.Line) { l.X = "a" }),
			ln('+', k63+"."+k63+".a.org", func(l *kit.Line) { l.IP = "192.0.2.1" }),
		},
		Query:  kit.Query{Name: k63 + "." + k63 + ".a.org.", Type: 1, Class: 1, MaxAns: 1},
		Client: kit.Client{Resolver: "10.0.0.1"},
	},
	{
		Name: "v2-context-cache-neighbour-glue",
		Lines: []kit.Line{
			ln('.', "example.com", func(l *kit.Line) { l.X = "a" }),
			ln('&', "sub.example.com", func(l *kit.Line) { l.X = "ns.sub.example.com" }),
			ln('+', "a.sub.example.com", func(l *kit.Line) { l.IP = "1.2.3.4" }),
			ln('+', "m.sub.example.com", func(l *kit.Line) { l.IP = "5.6.7.8" }),
		},
		Query:  kit.Query{Name: "ns.sub.example.com.", Type: 1, Class: 1, MaxAns: 1},
		Client: kit.Client{Resolver: "10.0.0.1"},
	},
	{
		Name: "v2-wildcard-map-at-queried-name",
		Lines: []kit.Line{
			ln('.', "a.com", func(l *kit.Line) { l.X = "a" }),
			ln('M', "a.com", func(l *kit.Line) { l.Wild = true; l.MapID = "m1" }),
		},
		Query:  kit.Query{Name: "a.com.", Type: 6, Class: 1, MaxAns: 1},
		Client: kit.Client{Resolver: "10.0.0.1"},
	},
	{
		Name: "v2-wildcard-crosses-zone-cut",
		Lines: []kit.Line{
			ln('.', "a.com", func(l *kit.Line) { l.X = "a" }),
			ln('.', "b.a.com", func(l *kit.Line) { l.X = "a" }),
			ln('+', "a.com", func(l *kit.Line) { l.Wild = true; l.IP = "192.0.2.1" }),
		},
		Query:  kit.Query{Name: "x.b.a.com.", Type: 1, Class: 1, MaxAns: 1},
		Client: kit.Client{Resolver: "10.0.0.1"},
	},
	{
		Name: "v2-root-wildcard-map",
		Lines: []kit.Line{
			ln('.', "a.com", func(l *kit.Line) { l.X = "a" }),
			ln('+', "x.a.com", func(l *kit.Line) { l.IP = "192.0.2.1"; l.Loc = "l1" }),
			ln('M', "", func(l *kit.Line) { l.Wild = true; l.MapID = "m1" }),
			ln('%', "", func(l *kit.Line) { l.Loc = "l1"; l.CIDR = "0.0.0.0/0"; l.MapID = "m1" }),
			ln('%', "", func(l *kit.Line) { l.Loc = "l1"; l.CIDR = "::/0"; l.MapID = "m1" }),
		},
		Query:  kit.Query{Name: "x.a.com.", Type: 1, Class: 1, MaxAns: 1},
		Client: kit.Client{Resolver: "10.0.0.1"},
	},
	{
		Name: "v2-root-wildcard-map-root-query",
		Lines: []kit.Line{
			ln('.', "a.com", func(l *kit.Line) { l.X = "a" }),
			ln('8', "", func(l *kit.Line) { l.Wild = true; l.MapID = "m1" }),
		},
		Query:  kit.Query{Name: ".", Type: 1, Class: 1, MaxAns: 1},
		Client: kit.Client{Resolver: "10.0.0.2", ECS: &kit.ECS{Family: 1, Source: 32, Addr: "10.0.0.1"}},
	},
}

func runRegressions(t kit.Fataler, run func(t kit.Fataler, w *kit.World, q kit.Query, c kit.Client)) {
	for _, r := range regressions {
		w := &kit.World{Lines: r.Lines, Serial: 1700000000}
		run(t, w, r.Query, r.Client)
		kit.Eval()
		kit.Class("regression:" + r.Name)
	}
}
