package kit

import (
	"bytes"
	"fmt"
	"os"
	"path/filepath"
	"sync/atomic"
	"time"

	dcdb "github.com/facebookincubator/dns/dnsrocks/dnsdata/cdb"
	"github.com/facebookincubator/dns/dnsrocks/dnsdata/rdb"
	"github.com/facebookincubator/dns/dnsrocks/dnsserver"
	"github.com/facebookincubator/dns/dnsrocks/dnsserver/stats"
	cdb "github.com/repustate/go-cdb"
)

// Backend names a storage configuration.
type Backend int

// The three storage configurations.
const (
	CDB Backend = iota
	RDBv1
	RDBv2
)

// AllBackends lists them.
var AllBackends = []Backend{CDB, RDBv1, RDBv2}

func (b Backend) String() string {
	switch b {
	case CDB:
		return "cdb"
	case RDBv1:
		return "rdb-v1"
	default:
		return "rdb-v2"
	}
}

// Driver is the db.Open driver name.
func (b Backend) Driver() string {
	if b == CDB {
		return "cdb"
	}
	return "rocksdb"
}

var dirCtr int64

// Scratch creates a fresh scratch directory under OutDir.
func Scratch(prefix string) string {
	n := atomic.AddInt64(&dirCtr, 1)
	d := filepath.Join(OutDir(), fmt.Sprintf("%s-%d-%d", prefix, os.Getpid(), n))
	_ = os.RemoveAll(d)
	if err := os.MkdirAll(d, 0o755); err != nil {
		panic(err)
	}
	return d
}

// CompileOpts selects compiler settings for RocksDB.
type CompileOpts struct {
	Workers       int
	Builder       bool
	Hardlinks     bool
	BatchSize     int
	BatchParallel int
}

// DefaultCompile is the cheap setting used when compilation is not the subject.
var DefaultCompile = CompileOpts{Workers: 1, BatchParallel: 1}

// Compile compiles data text into dir for the backend and returns the path
// to open (file for CDB, directory for RocksDB).
func Compile(text []byte, serial uint32, dir string, b Backend, o CompileOpts) (string, error) {
	if o.Workers == 0 && !o.Builder && o.BatchParallel == 0 {
		o = DefaultCompile
	}
	switch b {
	case CDB:
		p := filepath.Join(dir, "data.cdb")
		w, err := cdb.NewWriter(p)
		if err != nil {
			return "", err
		}
		_, err = dcdb.CreateCDBFromReader(bytes.NewReader(text), w, serial, o.Workers)
		if cerr := w.Close(); err == nil {
			err = cerr
		}
		return p, err
	default:
		p := filepath.Join(dir, "rdb-"+b.String())
		if err := os.MkdirAll(p, 0o755); err != nil {
			return "", err
		}
		opts := rdb.CompilationOptions{
			NumCPU: o.Workers, UseV2KeySyntax: b == RDBv2, UseBuilder: o.Builder,
			BuilderUseHardlinks: o.Hardlinks, BatchNumParallel: o.BatchParallel, BatchSize: o.BatchSize,
		}
		_, err := rdb.Compile(bytes.NewReader(text), serial, p, opts)
		return p, err
	}
}

// HandlerOpts configures OpenHandler.
type HandlerOpts struct {
	Cache         dnsserver.CacheConfig
	Stats         stats.Stats
	Logger        dnsserver.Logger
	ValidationKey []byte
	ReloadTimeout time.Duration
}

// OpenHandler opens a database with the real handler.
func OpenHandler(path string, b Backend, o HandlerOpts) (*dnsserver.FBDNSDB, error) {
	if o.Stats == nil {
		o.Stats = &stats.DummyStats{}
	}
	if o.Logger == nil {
		o.Logger = &dnsserver.DummyLogger{}
	}
	if o.ReloadTimeout == 0 {
		o.ReloadTimeout = 30 * time.Second
	}
	h, err := dnsserver.NewFBDNSDBBasic(dnsserver.HandlerConfig{},
		dnsserver.DBConfig{Path: path, Driver: b.Driver(), ReloadTimeout: o.ReloadTimeout, ValidationKey: o.ValidationKey},
		o.Cache, o.Logger, o.Stats)
	if err != nil {
		return nil, err
	}
	if err := h.Load(); err != nil {
		return nil, err
	}
	return h, nil
}

// Served is one compiled and opened database.
type Served struct {
	Backend Backend
	Path    string
	H       *dnsserver.FBDNSDB
}

// ServeAll compiles text for the given backends under one scratch directory
// and opens a handler on each.  The returned cleanup closes and removes all.
func ServeAll(text []byte, serial uint32, backends []Backend, co CompileOpts, ho HandlerOpts) ([]Served, func(), error) {
	dir := Scratch("w")
	var out []Served
	cleanup := func() {
		for _, s := range out {
			if s.H != nil {
				s.H.Close()
			}
		}
		_ = os.RemoveAll(dir)
	}
	for _, b := range backends {
		p, err := Compile(text, serial, dir, b, co)
		if err != nil {
			cleanup()
			return nil, func() {}, fmt.Errorf("compile %s: %w", b, err)
		}
		h, err := OpenHandler(p, b, ho)
		if err != nil {
			cleanup()
			return nil, func() {}, fmt.Errorf("open %s: %w", b, err)
		}
		out = append(out, Served{Backend: b, Path: p, H: h})
	}
	return out, cleanup, nil
}
