package props

import (
	"fmt"
	"net"
	"sort"
	"strings"
	"testing"

	"github.com/facebookincubator/dns/dnsrocks/dnsserver"
	"github.com/miekg/dns"
	"pgregory.net/rapid"

	"verif/kit"
)

// C10: EDNS Client Subnet is echoed faithfully with a truthful scope.

type c10Case struct {
	Text    string     `json:"text"`
	World   *kit.World `json:"world"`
	Backend string     `json:"backend"`
	QName   string     `json:"qname"`
	QType   uint16     `json:"qtype"`
	Client  kit.Client `json:"client"`
	OptKind int        `json:"opt_kind"` // 0 none, 1 OPT without ECS, 2 OPT with ECS, 3 OPT with ECS and other options
	Cache   bool       `json:"cache"`
	Want    string     `json:"want,omitempty"`
	Got     string     `json:"got,omitempty"`
}

var c10Markers = map[string]string{"l1": "192.0.2.1", "l2": "192.0.2.2", "l3": "192.0.2.3", "\x00,": "192.0.2.4", "": "192.0.2.100"}

var c10Names = []string{"www.example.com", "a.b.example.com", "b.example.com", "example.com", "x.wild.example.com", "deleg.example.com", "h.deleg.example.com"}

func genC10World(t *rapid.T) *kit.World {
	w := &kit.World{Serial: 1}
	add := func(l kit.Line) { w.Lines = append(w.Lines, l) }
	add(ln('.', "example.com", func(l *kit.Line) { l.X = "a"; l.IP = "192.0.2.53" }))
	add(ln('&', "deleg.example.com", func(l *kit.Line) { l.X = "ns.deleg.example.com"; l.IP = "192.0.2.54" }))
	for _, n := range []string{"www.example.com", "a.b.example.com", "b.example.com", "example.com"} {
		for loc, ip := range c10Markers {
			l := ln('+', n, func(l *kit.Line) { l.IP = ip; l.Loc = loc })
			add(l)
		}
	}
	for loc, ip := range c10Markers {
		add(ln('+', "wild.example.com", func(l *kit.Line) { l.IP = ip; l.Loc = loc; l.Wild = true }))
	}
	sort.SliceStable(w.Lines, func(i, j int) bool { return w.Lines[i].Render() < w.Lines[j].Render() })
	// maps
	mapNames := []string{"www.example.com", "b.example.com", "example.com", "wild.example.com", "com", "a.b.example.com", "deleg.example.com", "org"}
	used := map[string]bool{}
	nm := rapid.IntRange(1, 7).Draw(t, "nmaps")
	for i := 0; i < nm; i++ {
		kind := rapid.SampledFrom([]byte{'8', '8', 'M'}).Draw(t, "mapkind")
		name := rapid.SampledFrom(mapNames).Draw(t, "mapname")
		wild := rapid.Bool().Draw(t, "mapwild")
		k := fmt.Sprintf("%c%s%v", kind, name, wild)
		if used[k] {
			continue
		}
		used[k] = true
		id := rapid.SampledFrom([]string{"e1", "e2"}).Draw(t, "ecsmapid")
		if kind == 'M' {
			id = rapid.SampledFrom([]string{"m1", "m2"}).Draw(t, "resmapid")
		}
		add(kit.Line{K: kind, Owner: name, Wild: wild, MapID: id, TTL: -1})
	}
	for _, s := range kit.GenSubnets(t, []string{"", "m1", "m2", "e1", "e2"}, c03Opts()) {
		add(kit.Line{K: '%', Loc: s.Loc, CIDR: s.CIDR, MapID: s.Map, TTL: -1})
	}
	return w
}

func subnetsOfMap(w *kit.World, id [2]byte) []kit.SubnetSpec {
	var out []kit.SubnetSpec
	for _, l := range w.Lines {
		if l.K == '%' {
			var m [2]byte
			copy(m[:], l.MapID)
			if m == id {
				out = append(out, kit.SubnetSpec{CIDR: l.CIDR, Loc: l.Loc, Map: l.MapID})
			}
		}
	}
	return out
}

type c10Q struct {
	QName   string
	QType   uint16
	Client  kit.Client
	OptKind int
}

func genC10Q(t *rapid.T, w *kit.World) c10Q {
	q := c10Q{QName: rapid.SampledFrom(append([]string{"nx.example.com", "other.org", "WWW.Example.Com"}, c10Names...)).Draw(t, "qname")}
	q.QType = rapid.SampledFrom([]uint16{1, 1, 1, 16, 2, 28, 255}).Draw(t, "qtype")
	rid, _ := kit.MapFor(w.Maps(), 'M', q.QName)
	rc := kit.GenLPMClient(t, subnetsOfMap(w, rid), false)
	q.Client.Resolver = rc.Addr
	q.OptKind = rapid.IntRange(0, 3).Draw(t, "optkind")
	if q.OptKind >= 2 {
		eid, _ := kit.MapFor(w.Maps(), '8', q.QName)
		ec := kit.GenLPMClient(t, subnetsOfMap(w, eid), true)
		q.Client.ECS = &kit.ECS{Family: uint16(ec.Family), Source: uint8(ec.Len), Addr: ec.Addr}
		if ec.Family == 1 && ec.Len == 32 && rapid.IntRange(0, 5).Draw(t, "mapped") == 0 {
			// the same IPv4 host sent as an IPv4-mapped IPv6 client subnet (family 2, /128):
			// the scope is then expressed in IPv6 terms
			q.Client.ECS = &kit.ECS{Family: 2, Source: 128, Addr: "::ffff:" + ec.Addr}
		}
	}
	return q
}

func c10Msg(q c10Q) *dns.Msg {
	m := kit.BuildMsg(kit.Query{Name: q.QName + ".", Type: q.QType, Class: 1}, q.Client, 77)
	switch q.OptKind {
	case 0:
		m.Extra = nil
	case 1:
		o := &dns.OPT{Hdr: dns.RR_Header{Name: ".", Rrtype: dns.TypeOPT}}
		o.SetUDPSize(1232)
		o.SetDo()
		m.Extra = []dns.RR{o}
	case 3:
		o := m.IsEdns0()
		o.Option = append([]dns.EDNS0{&dns.EDNS0_COOKIE{Code: dns.EDNS0COOKIE, Cookie: "0123456789abcdef"}}, o.Option...)
		o.Option = append(o.Option, &dns.EDNS0_LOCAL{Code: 65001, Data: []byte{1, 2}}, &dns.EDNS0_PADDING{Padding: make([]byte, 7)})
	}
	return m
}

func c10Check(t kit.Fataler, w *kit.World, text []byte, backend string, cache bool, h *dnsserver.FBDNSDB, q c10Q, record bool) {
	req := c10Msg(q)
	resp, _, err := kit.AskMsg(h, req.Copy(), q.Client.Resolver, 8, true)
	cs := c10Case{Text: string(text), World: w, Backend: backend, QName: q.QName, QType: q.QType, Client: q.Client, OptKind: q.OptKind, Cache: cache, Got: kit.Brief(resp)}
	fail := func(key, format string, a ...interface{}) {
		kit.Fail(t, "C10", key, cs, "%s cache=%v %s type %d resolver %s ecs %+v optkind %d: "+format+"\nresponse: %s", append([]interface{}{backend, cache, q.QName, q.QType, q.Client.Resolver, q.Client.ECS, q.OptKind}, append(a, optString(resp))...)...)
	}
	if err != nil {
		fail("handler-error", "%v", err)
	}
	if resp == nil {
		fail("no-response", "nothing written")
	}
	lr := w.Locate(q.QName, q.Client)
	ro := resp.IsEdns0()
	rcodeClass := dns.RcodeToString[resp.Rcode]
	if resp.Rcode == 0 && len(resp.Answer) == 0 {
		rcodeClass = "NODATA"
		if !resp.Authoritative {
			rcodeClass = "REFERRAL"
		}
	}
	if (ro != nil) != (q.OptKind != 0) {
		fail("opt-presence/"+rcodeClass, "query OPT=%v but response OPT=%v", q.OptKind != 0, ro != nil)
	}
	nopt := 0
	for _, rr := range resp.Extra {
		if rr.Header().Rrtype == dns.TypeOPT {
			nopt++
		}
	}
	if nopt > 1 {
		fail("opt-twice", "%d OPT records in the response", nopt)
	}
	var recs []*dns.EDNS0_SUBNET
	if ro != nil {
		for _, o := range ro.Option {
			if e, ok := o.(*dns.EDNS0_SUBNET); ok {
				recs = append(recs, e)
			}
		}
	}
	if q.Client.ECS == nil {
		if len(recs) != 0 {
			fail("ecs-presence/"+rcodeClass, "query had no client-subnet option but the response has one")
		}
	} else {
		if len(recs) != 1 {
			fail("ecs-presence/"+rcodeClass, "query had a client-subnet option, response has %d", len(recs))
		}
		e := recs[0]
		wantIP := net.ParseIP(q.Client.ECS.Addr)
		if e.Family != q.Client.ECS.Family || e.SourceNetmask != q.Client.ECS.Source || !e.Address.Equal(wantIP) {
			fail("ecs-echo", "client-subnet echoed as family %d source %d address %s", e.Family, e.SourceNetmask, e.Address)
		}
		cs.Want = fmt.Sprintf("scope %d (ecs map %v, via ecs %v, matched %d)", lr.ExpScope, lr.HasECSMap, lr.ViaECS, lr.ECSMatched)
		if e.SourceScope != lr.ExpScope {
			cls := "no-map"
			if lr.HasECSMap {
				cls = "default"
				if lr.ViaECS {
					cls = "match"
				}
			}
			fail("scope/"+cls+"/"+rcodeClass, "scope %d, want %d (name has ECS map: %v, located subnet matched: %v, matched length %d)", e.SourceScope, lr.ExpScope, lr.HasECSMap, lr.ViaECS, lr.ECSMatched)
		}
	}
	// which location's records were served
	qn := kit.CanonName(q.QName)
	marker := ""
	switch {
	case qn == "www.example.com" || qn == "a.b.example.com" || qn == "b.example.com" || qn == "example.com" || qn == "x.wild.example.com":
		marker = qn
	}
	if marker != "" && q.QType == 1 && resp.Rcode == 0 {
		want := map[string]bool{c10Markers[""]: true}
		if lr.Loc != [2]byte{} {
			if ip, ok := c10Markers[string(lr.Loc[:])]; ok {
				want[ip] = true
			}
		}
		got := map[string]bool{}
		for _, rr := range resp.Answer {
			if a, ok := rr.(*dns.A); ok {
				got[a.A.String()] = true
			}
		}
		if fmt.Sprint(keys(want)) != fmt.Sprint(keys(got)) {
			fail("served-location", "served addresses %v, want %v (expected location %q, decided by ECS: %v)", keys(got), keys(want), lr.Loc[:], lr.ViaECS)
		}
	}
	if record {
		cls := "noecs"
		if q.Client.ECS != nil {
			switch {
			case !lr.HasECSMap:
				cls = "ecs:no-map"
			case lr.ViaECS:
				cls = "ecs:hit"
			case lr.Loc != [2]byte{}:
				cls = "ecs:fallback-to-resolver"
			default:
				cls = "ecs:miss-default"
			}
		}
		kit.Class(cls + "/" + rcodeClass)
		if q.Client.ECS != nil && lr.HasECSMap {
			kit.NonTrivial(fmt.Sprintf("%s|%v|%s|%s|%d|%+v|%s|%s", backend, cache, cls, rcodeClass, q.Client.ECS.Family, *q.Client.ECS, q.QName, text))
		}
	}
}

func keys(m map[string]bool) []string {
	var out []string
	for k := range m {
		out = append(out, k)
	}
	sort.Strings(out)
	return out
}

func optString(m *dns.Msg) string {
	if m == nil {
		return "<nothing written>"
	}
	o := m.IsEdns0()
	s := fmt.Sprintf("rcode=%s aa=%v answers=%d", dns.RcodeToString[m.Rcode], m.Authoritative, len(m.Answer))
	if o == nil {
		return s + " no OPT"
	}
	return s + " " + strings.ReplaceAll(o.String(), "\n", " ")
}

func c10Run(t kit.Fataler, w *kit.World, qs []c10Q, record bool) {
	text := w.Text()
	for _, cache := range []bool{false, true} {
		ho := kit.HandlerOpts{}
		if cache {
			ho.Cache = dnsserver.CacheConfig{Enabled: true, LRUSize: 8}
		}
		served, cleanup, err := kit.ServeAll(text, w.Serial, kit.AllBackends, kit.DefaultCompile, ho)
		if err != nil {
			kit.Fail(t, "C10", "compile-error", c10Case{Text: string(text), World: w}, "compile/open: %v", err)
			return
		}
		for _, s := range served {
			for _, q := range qs {
				c10Check(t, w, text, s.Backend.String(), cache, s.H, q, record)
			}
			if cache {
				// second pass: now most answers come from the cache
				for _, q := range qs {
					c10Check(t, w, text, s.Backend.String(), cache, s.H, q, false)
				}
			}
		}
		cleanup()
	}
}

func TestC10(t *testing.T) {
	if f := kit.ReplayFile(); f != "" {
		var c c10Case
		kit.LoadReplay(t, f, &c)
		c10Run(t, c.World, []c10Q{{c.QName, c.QType, c.Client, c.OptKind}}, false)
		kit.Eval()
		return
	}
	kit.SetRapid(kit.N(320, 4000))
	rapid.Check(t, kit.Prop("C10", func(t *rapid.T) {
		w := genC10World(t)
		nq := rapid.IntRange(10, 40).Draw(t, "nq")
		qs := make([]c10Q, nq)
		for i := range qs {
			qs[i] = genC10Q(t, w)
		}
		kit.Case(c10Case{Text: string(w.Text()), World: w})
		c10Run(t, w, qs, true)
		kit.ClassN("queries", int64(nq))
		kit.Sample(map[string]interface{}{"data_tail": tail(string(w.Text()), 600), "query": qs[0]})
	}))
}

func tail(s string, n int) string {
	if len(s) > n {
		return s[len(s)-n:]
	}
	return s
}
