package kit

import (
	"fmt"
	"sort"
	"strings"

	"pgregory.net/rapid"
)

// Generators for Worlds, queries and clients.  Names, labels, locations and
// addresses come from tiny alphabets so that collisions, nesting and key-order
// adjacency happen in most cases.

// Labels is the label alphabet.
var Labels = []string{"a", "b", "ab", "ns", "mx", "www", "x-1", "_s", "0", "c"}

// TLDs under which zones are created.
var TLDs = []string{"com", "org"}

// Locs are the location ids used for tagging (the third needs an escape: it
// holds a comma).
var Locs = []string{"l1", "l2", "\x00,", "\x00:", "\x00\\", "La"}

// ClientPool are the resolver / client addresses used by world-based checks.
var ClientPool = []string{"10.0.0.1", "10.0.0.2", "10.0.1.1", "192.0.2.7", "2001:db8::1", "2001:db8::2", "2001:db8:1::1"}

// GenOpts tunes GenWorld.
type GenOpts struct {
	Wide          bool // also emit unusual-but-accepted shapes (CNAME next to data, duplicate lines, upper-case rdata names)
	NoMaps        bool // no M/8/% lines
	NoRootWildMap bool // do not declare a wildcard map at the root ("M*.")
	MaxLines      int
}

type ownerKey struct {
	name string
	wild bool
}

type worldBuilder struct {
	t     *rapid.T
	o     GenOpts
	w     *World
	reg   map[ownerKey][]RR
	apex  []string
	deleg []string
	pool  []string
}

func visibleTogether(a, b string) bool { return a == b || a == "" || b == "" }

func (b *worldBuilder) conflicts(r RR) bool {
	k := ownerKey{r.Owner, r.Wild}
	same := 0
	for _, x := range b.reg[k] {
		if x.Type == r.Type {
			same++
		}
		if !visibleTogether(x.Loc, r.Loc) {
			continue
		}
		// two SOAs visible to one client: which one is served depends on value
		// order under a key, which no property fixes - never generated
		if x.Type == 6 && r.Type == 6 && (!b.o.Wide || x.Loc == r.Loc) {
			// (wide worlds may pair a location-tagged SOA with an untagged one: they live
			// under different keys, the tagged one is read first on every backend)
			return true
		}
		if b.o.Wide {
			continue
		}
		if (x.Type == 5) != (r.Type == 5) || (x.Type == 5 && r.Type == 5) {
			return true
		}
	}
	if (r.Type == 1 || r.Type == 28) && same >= 8 {
		return true
	}
	if same >= 12 {
		return true
	}
	return false
}

func (b *worldBuilder) add(l Line) bool {
	max := b.o.MaxLines
	if max == 0 {
		max = 40
	}
	if len(b.w.Lines) >= max {
		return false
	}
	rrs := l.Expand(b.w.Serial)
	for i, r := range rrs {
		if b.conflicts(r) {
			return false
		}
		// records of one line must not conflict with each other either
		for _, x := range rrs[:i] {
			if x.Owner == r.Owner && x.Wild == r.Wild && !b.o.Wide && ((x.Type == 5) != (r.Type == 5)) {
				return false
			}
		}
	}
	for _, r := range rrs {
		k := ownerKey{r.Owner, r.Wild}
		b.reg[k] = append(b.reg[k], r)
	}
	if l.Colon && !l.CanColon() {
		l.Colon = false
	}
	b.w.Lines = append(b.w.Lines, l)
	return true
}

func (b *worldBuilder) label(tag string) string {
	if rapid.IntRange(0, 39).Draw(b.t, tag+"-odd") == 0 {
		return rapid.SampledFrom([]string{"a!b", "x.y"[:1] + "~", strings.Repeat("k", 63)}).Draw(b.t, tag+"-oddlabel")
	}
	return rapid.SampledFrom(Labels).Draw(b.t, tag)
}

func (b *worldBuilder) loc(tag string, pTagged int) string {
	if rapid.IntRange(0, 99).Draw(b.t, tag+"-tagged") >= pTagged {
		return ""
	}
	i := rapid.IntRange(0, 10).Draw(b.t, tag)
	switch {
	case i < 5:
		return Locs[0]
	case i < 8:
		return Locs[1]
	case i == 10:
		return Locs[5] // upper-case letter in the id: ids are opaque bytes, never case-folded
	default:
		return Locs[2+(i-8)]
	}
}

func (b *worldBuilder) ttl(tag string) int64 {
	switch rapid.IntRange(0, 5).Draw(b.t, tag) {
	case 0, 1, 2:
		return -1
	case 3:
		return 0
	case 4:
		return int64(rapid.IntRange(1, 600).Draw(b.t, tag+"-v"))
	default:
		return int64(rapid.SampledFrom([]int{1, 86400, 2147483647, 4294967295}).Draw(b.t, tag+"-e"))
	}
}

func (b *worldBuilder) ip(tag string) string {
	if rapid.Bool().Draw(b.t, tag+"-v6") {
		return rapid.SampledFrom([]string{"2001:db8::10", "2001:db8::11", "fd00::1", "2001:db8:0:1::53", "::1"}).Draw(b.t, tag)
	}
	return rapid.SampledFrom([]string{"192.0.2.1", "192.0.2.2", "198.51.100.7", "10.1.2.3", "203.0.113.255"}).Draw(b.t, tag)
}

func (b *worldBuilder) colon() bool { return rapid.IntRange(0, 7).Draw(b.t, "colon") == 0 }

func mixCase(t *rapid.T, s, tag string) string {
	if rapid.IntRange(0, 3).Draw(t, tag+"-mix") != 0 {
		return s
	}
	bs := []byte(s)
	for i, c := range bs {
		if c >= 'a' && c <= 'z' && rapid.Bool().Draw(t, tag+"-up") {
			bs[i] = c - 32
		}
	}
	return string(bs)
}

func num(t *rapid.T, tag string, vals ...int) int64 {
	if rapid.Bool().Draw(t, tag+"-omit") {
		return -1
	}
	return int64(rapid.SampledFrom(vals).Draw(t, tag))
}

func (b *worldBuilder) zones() {
	nz := rapid.IntRange(1, 3).Draw(b.t, "nzones")
	for i := 0; i < nz; i++ {
		var apex string
		if len(b.apex) > 0 && rapid.IntRange(0, 2).Draw(b.t, "nested") == 0 {
			par := rapid.SampledFrom(b.apex).Draw(b.t, "zone-parent")
			apex = b.label("zl") + "." + par
			if rapid.IntRange(0, 3).Draw(b.t, "deep") == 0 {
				apex = b.label("zl2") + "." + apex
			}
		} else {
			apex = b.label("zl") + "." + rapid.SampledFrom(TLDs).Draw(b.t, "tld")
		}
		dup := false
		for _, a := range b.apex {
			if a == apex {
				dup = true
			}
		}
		if dup || len(apex) > 200 {
			continue
		}
		// location scheme of the SOA+NS pair(s)
		var tags []string
		switch rapid.IntRange(0, 9).Draw(b.t, "zone-tagging") {
		case 0:
			tags = []string{Locs[0]}
		case 1:
			tags = []string{Locs[0], Locs[1]}
		default:
			tags = []string{""}
		}
		okAny := false
		for _, tag := range tags {
			if rapid.Bool().Draw(b.t, "dotline") {
				x := rapid.SampledFrom([]string{"a", "b", "ns1." + apex, "ns.ext.net"}).Draw(b.t, "dot-x")
				ip := ""
				if rapid.Bool().Draw(b.t, "dot-ip") {
					ip = b.ip("dot-ipv")
				}
				if b.add(Line{K: '.', Owner: apex, IP: ip, X: x, TTL: b.ttl("dot-ttl"), Loc: tag, N: [5]int64{-1, -1, -1, -1, -1}, Colon: b.colon()}) {
					okAny = true
				}
			} else {
				z := Line{K: 'Z', Owner: mixCase(b.t, apex, "zown"), X: "ns1." + apex, Adm: "hostmaster." + apex, TTL: b.ttl("soa-ttl"), Loc: tag, Colon: b.colon()}
				z.N = [5]int64{num(b.t, "ser", 0, 1, 2023010101, 4294967295), num(b.t, "ref", 7200), num(b.t, "ret", 1800), num(b.t, "exp", 604800), num(b.t, "min", 0, 120)}
				if !b.add(z) {
					continue
				}
				okAny = true
				nns := rapid.IntRange(1, 2).Draw(b.t, "nns")
				for j := 0; j < nns; j++ {
					x := rapid.SampledFrom([]string{"a", "b", "ns1." + apex, "ns2." + apex, "ns.ext.net"}).Draw(b.t, "ns-x")
					ip := ""
					if rapid.Bool().Draw(b.t, "ns-ip") {
						ip = b.ip("ns-ipv")
					}
					b.add(Line{K: '&', Owner: apex, IP: ip, X: x, TTL: b.ttl("ns-ttl"), Loc: tag, N: [5]int64{-1, -1, -1, -1, -1}, Colon: b.colon()})
				}
			}
		}
		if okAny {
			b.apex = append(b.apex, apex)
			// sometimes an extra location-specific NS at the apex
			if rapid.IntRange(0, 7).Draw(b.t, "extra-ns") == 0 {
				b.add(Line{K: '&', Owner: apex, X: "c", IP: b.ip("xns-ip"), TTL: -1, Loc: Locs[0], N: [5]int64{-1, -1, -1, -1, -1}})
			}
		}
	}
}

func (b *worldBuilder) delegations() {
	if len(b.apex) == 0 {
		return
	}
	nd := rapid.IntRange(0, 2).Draw(b.t, "ndeleg")
	for i := 0; i < nd; i++ {
		par := rapid.SampledFrom(b.apex).Draw(b.t, "deleg-parent")
		d := b.label("dl") + "." + par
		if rapid.IntRange(0, 3).Draw(b.t, "deleg-deep") == 0 {
			d = b.label("dl2") + "." + d
		}
		isApex := false
		for _, a := range b.apex {
			if a == d {
				isApex = true
			}
		}
		if isApex {
			continue
		}
		tag := b.loc("deleg-loc", 15)
		n := rapid.IntRange(1, 2).Draw(b.t, "deleg-nns")
		ok := false
		for j := 0; j < n; j++ {
			x := rapid.SampledFrom([]string{"a", "ns." + d, "ns1." + par, "ns.ext.net", "b"}).Draw(b.t, "deleg-x")
			ip := ""
			if rapid.IntRange(0, 2).Draw(b.t, "deleg-glue") != 0 {
				ip = b.ip("deleg-ip")
			}
			if b.add(Line{K: '&', Owner: d, IP: ip, X: x, TTL: b.ttl("deleg-ttl"), Loc: tag, N: [5]int64{-1, -1, -1, -1, -1}, Colon: b.colon()}) {
				ok = true
			}
		}
		if ok {
			b.deleg = append(b.deleg, d)
		}
	}
}

func (b *worldBuilder) buildPool() {
	set := map[string]bool{}
	addn := func(n string) {
		if len(n) <= 230 {
			set[n] = true
		}
	}
	for _, a := range b.apex {
		addn(a)
		k := rapid.IntRange(1, 5).Draw(b.t, "pool-n")
		for i := 0; i < k; i++ {
			n := a
			depth := rapid.IntRange(1, 3).Draw(b.t, "pool-depth")
			for j := 0; j < depth; j++ {
				n = b.label("pl") + "." + n
				addn(n)
			}
		}
	}
	for _, d := range b.deleg {
		addn(d)
		addn(b.label("pdl") + "." + d)
	}
	if len(b.apex) > 0 && rapid.IntRange(0, 3).Draw(b.t, "pool-deep") == 0 {
		// names of 10 and more labels (deeper than any fixed-size candidate list)
		addn("l1.l2.l3.l4.l5.l6.l7.l8.l9.l10." + b.apex[0])
	}
	addn("a.net")
	addn("b.a.net")
	for k := range b.reg {
		addn(k.name)
	}
	b.pool = b.pool[:0]
	for n := range set {
		b.pool = append(b.pool, n)
	}
	sort.Strings(b.pool)
}

func (b *worldBuilder) owner(tag string) string {
	if len(b.apex) > 0 && rapid.IntRange(0, 4).Draw(b.t, tag+"-new") == 0 {
		return b.label(tag+"-l") + "." + rapid.SampledFrom(b.apex).Draw(b.t, tag+"-apex")
	}
	return rapid.SampledFrom(b.pool).Draw(b.t, tag)
}

func (b *worldBuilder) target(tag string) string {
	if rapid.IntRange(0, 3).Draw(b.t, tag+"-ext") == 0 {
		return rapid.SampledFrom([]string{"t.example.net", "cdn.ext.net", "a.net"}).Draw(b.t, tag+"-extv")
	}
	t := rapid.SampledFrom(b.pool).Draw(b.t, tag)
	if b.o.Wide && rapid.IntRange(0, 9).Draw(b.t, tag+"-upper") == 0 {
		t = strings.ToUpper(t)
	}
	return t
}

var auxSamples = []struct {
	T  uint16
	RD []byte
}{
	{13, []byte("\x03cpu\x02os")},
	{257, []byte("\x00\x05issueca.example")},
	{99, []byte("\x0bv=spf1 -all")},
	{65280, []byte{0, 1, 2, ',', ':', '\\', 0xff, ' ', '"'}},
	{65280, nil},
	{65280, []byte("abc ")},
	// generic lines carrying types that also have a native line kind
	{16, []byte("\x05hello\x03abc")},
	{15, []byte("\x00\x0a\x04mail\x03ext\x03net\x00")},
	{33, []byte("\x00\x01\x00\x02\x01\xbb\x03srv\x03ext\x03net\x00")},
	{65280, []byte(" x  ")},
	{44, []byte{1, 1, 0xde, 0xad}},
}

func (b *worldBuilder) records() {
	n := rapid.IntRange(3, 24).Draw(b.t, "nrec")
	none := [5]int64{-1, -1, -1, -1, -1}
	for i := 0; i < n; i++ {
		kind := rapid.SampledFrom([]byte("++++++==CCC'''@@@SS^::HHBB&")).Draw(b.t, "kind")
		owner := b.owner("own")
		wild := false
		if strings.IndexByte("+=C'BH", kind) >= 0 && rapid.IntRange(0, 3).Draw(b.t, "wild") == 0 {
			wild = true
		}
		l := Line{K: kind, Owner: owner, Wild: wild, TTL: b.ttl("ttl"), Loc: b.loc("loc", 30), N: none, Colon: b.colon()}
		if strings.IndexByte("+C':^ZBH", kind) >= 0 {
			l.Owner = mixCase(b.t, owner, "own")
		}
		switch kind {
		case '+':
			l.IP = b.ip("ip")
			l.N[0] = num(b.t, "weight", 0, 1, 2, 10, 1000)
		case '=':
			l.IP = b.ip("ip")
		case 'C':
			l.X = b.target("cname")
		case '\'':
			tl := rapid.SampledFrom([]int{0, 1, 5, 126, 127, 128, 254, 255, 300}).Draw(b.t, "txtlen")
			txt := make([]byte, tl)
			for j := range txt {
				txt[j] = txtAlphabet[(j*7+tl)%len(txtAlphabet)]
			}
			if rapid.IntRange(0, 3).Draw(b.t, "txtblanks") == 0 {
				txt = append(txt, ' ', ' ') // trailing blanks are data too
			}
			l.Text = txt
		case '@':
			l.X = rapid.SampledFrom([]string{"a", "mail." + owner, "mx.ext.net", "b"}).Draw(b.t, "mx-x")
			if rapid.Bool().Draw(b.t, "mx-ip") {
				l.IP = b.ip("ip")
			}
			l.N[0] = num(b.t, "dist", 0, 10, 65535)
		case 'S':
			l.X = rapid.SampledFrom([]string{"a", "srv." + owner, "srv.ext.net"}).Draw(b.t, "srv-x")
			if rapid.Bool().Draw(b.t, "srv-ip") {
				l.IP = b.ip("ip")
			}
			l.N[0], l.N[1], l.N[2] = num(b.t, "port", 0, 443, 65535), num(b.t, "pri", 0, 1, 65535), num(b.t, "sw", 0, 5, 65535)
		case '^':
			l.X = b.target("ptr")
		case ':':
			s := rapid.SampledFrom(auxSamples).Draw(b.t, "aux")
			l.RType, l.Text = s.T, s.RD
		case 'B', 'H':
			l.X = rapid.SampledFrom([]string{".", "svc.ext.net", owner}).Draw(b.t, "svc-tgt")
			l.N[0] = num(b.t, "prio", 0, 1, 16)
			l.Params = rapid.IntRange(0, len(SvcParamSamples)-1).Draw(b.t, "svc-params")
		case '&':
			l.X = rapid.SampledFrom([]string{"a", "ns." + owner, "ns.ext.net"}).Draw(b.t, "ns-x")
			if rapid.Bool().Draw(b.t, "ns-ip") {
				l.IP = b.ip("ip")
			}
			// an NS inside an existing zone creates a delegation: keep apexes authoritative
			for _, a := range b.apex {
				if a == CanonName(owner) {
					l.K = '+'
					l.IP = b.ip("ip2")
					l.X = ""
				}
			}
		}
		b.add(l)
	}
	if b.o.Wide {
		// ill-formed but accepted shapes
		k := rapid.IntRange(0, 3).Draw(b.t, "nwide")
		for i := 0; i < k; i++ {
			owner := b.owner("wown")
			switch rapid.IntRange(1, 3).Draw(b.t, "widekind") {
			case 1: // duplicate of an existing line
				if len(b.w.Lines) > 0 {
					b.add(b.w.Lines[rapid.IntRange(0, len(b.w.Lines)-1).Draw(b.t, "dup")])
				}
			case 3: // a location-specific SOA next to the ordinary one
				// only where every client sees an NS (an untagged one): an SOA that some
				// client sees without any NS is not a well-formed zone
				var ok []string
				for _, a := range b.apex {
					for _, r := range b.reg[ownerKey{CanonName(a), false}] {
						if r.Type == 2 && r.Loc == "" {
							ok = append(ok, a)
							break
						}
					}
				}
				if len(ok) > 0 {
					a := rapid.SampledFrom(ok).Draw(b.t, "soa2-apex")
					b.add(Line{K: 'Z', Owner: a, X: "ns9." + a, Adm: "loc." + a, TTL: -1, Loc: b.loc("soa2-loc", 100), N: none})
				}
			default: // CNAME next to data
				b.add(Line{K: 'C', Owner: owner, X: b.target("wcname"), TTL: -1, Loc: b.loc("wloc2", 30), N: none})
			}
		}
	}
}

func (b *worldBuilder) maps() {
	if b.o.NoMaps {
		return
	}
	scheme := rapid.IntRange(0, 5).Draw(b.t, "mapscheme")
	if scheme == 0 {
		return // no maps at all: every client is location-less
	}
	mapIDs := []string{"m1", "m2", "\x00\x07"}
	used := map[string]bool{}
	var names []string
	names = append(names, b.apex...)
	names = append(names, TLDs...)
	names = append(names, b.pool...)
	declare := func(kind byte) {
		n := rapid.IntRange(0, 3).Draw(b.t, "nmaps"+string(kind))
		for i := 0; i < n; i++ {
			name := rapid.SampledFrom(names).Draw(b.t, "mapname")
			wild := rapid.Bool().Draw(b.t, "mapwild")
			if rapid.IntRange(0, 9).Draw(b.t, "maproot") == 0 {
				if b.o.NoRootWildMap {
					Excluded("root-wildcard-map")
				} else {
					name, wild = "", true
				}
			}
			id := rapid.SampledFrom(mapIDs).Draw(b.t, "mapid")
			key := fmt.Sprintf("%c/%s/%v", kind, name, wild)
			if used[key] {
				continue
			}
			used[key] = true
			if name == "" {
				// "*." is how a wildcard map at the root is written
				b.w.Lines = append(b.w.Lines, Line{K: kind, Owner: "", Wild: true, MapID: id, TTL: -1})
				continue
			}
			b.w.Lines = append(b.w.Lines, Line{K: kind, Owner: mixCase(b.t, name, "mapown"), Wild: wild, MapID: id, TTL: -1})
		}
	}
	declare('M')
	if scheme >= 3 {
		declare('8')
	}
	// subnets: host routes for pool addresses, sometimes a covering prefix,
	// defaults always for both families together (single-family defaults are
	// C03's subject)
	allMaps := append([]string{""}, mapIDs...)
	type sk struct{ m, c string }
	seen := map[sk]bool{}
	put := func(m, cidr, loc string) {
		// the same subnet is never given two locations in one map (the property
		// has no answer for that); compare in canonical form
		ip, n, _, ok := ParseSubnet(cidr)
		if !ok {
			return
		}
		canon := fmt.Sprintf("%s/%d", ip, n)
		if seen[sk{m, canon}] {
			return
		}
		seen[sk{m, canon}] = true
		b.w.Lines = append(b.w.Lines, Line{K: '%', Loc: loc, CIDR: cidr, MapID: m, TTL: -1})
	}
	for _, m := range allMaps {
		if rapid.IntRange(0, 3).Draw(b.t, "map-used") == 0 {
			continue
		}
		n := rapid.IntRange(1, 4).Draw(b.t, "nsub")
		for i := 0; i < n; i++ {
			addr := rapid.SampledFrom(ClientPool).Draw(b.t, "subaddr")
			cidr := addr
			switch rapid.IntRange(0, 3).Draw(b.t, "subform") {
			case 0:
				if strings.Contains(addr, ":") {
					cidr = addr + "/128"
				} else {
					cidr = addr + "/32"
				}
			case 1:
				if strings.Contains(addr, ":") {
					cidr = "2001:db8::/32"
				} else {
					cidr = "10.0.0.0/16"
				}
			}
			put(m, cidr, rapid.SampledFrom([]string{Locs[0], Locs[0], Locs[1], Locs[1], Locs[2], Locs[5]}).Draw(b.t, "subloc"))
		}
		if rapid.IntRange(0, 2).Draw(b.t, "defaults") == 0 {
			lo := Locs[rapid.IntRange(0, 1).Draw(b.t, "defloc")]
			put(m, "0.0.0.0/0", lo)
			put(m, "::/0", lo)
		}
	}
}

// GenWorld draws a data file.
func GenWorld(t *rapid.T, o GenOpts) *World {
	b := &worldBuilder{t: t, o: o, w: &World{}, reg: map[ownerKey][]RR{}}
	b.w.Serial = uint32(rapid.SampledFrom([]int{1, 1700000000, 2023010101}).Draw(t, "serial"))
	b.zones()
	b.delegations()
	b.buildPool()
	b.records()
	b.buildPool()
	b.maps()
	return b.w
}

// QueryNames returns the candidate query names of a world: owners, their
// parents and children, names under wildcards (wild-safe and not), names at
// and below delegations, names outside every zone.
func QueryNames(w *World) []string {
	set := map[string]bool{"": true, "a.net": true, "zz.b.a.net": true, "org": true, "com": true}
	rrs := w.RRs()
	for _, r := range rrs {
		set[r.Owner] = true
		for p := parent(r.Owner); p != ""; p = parent(p) {
			set[p] = true
		}
		for _, l := range []string{"a", "ns", "x-1"} {
			set[l+"."+r.Owner] = true
		}
		if r.Wild {
			set["a!b."+r.Owner] = true
			set["b.a."+r.Owner] = true
			set["a.a!b."+r.Owner] = true
		}
		if r.Type == 2 {
			set["c.www."+r.Owner] = true
			set["d1.d2.d3.d4.d5.d6.d7.d8.d9.d10.d11."+r.Owner] = true
		}
	}
	out := make([]string, 0, len(set))
	for n := range set {
		if len(n) < 250 {
			out = append(out, n)
		}
	}
	sort.Strings(out)
	return out
}

// QueryTypes are the types asked besides the ones present at a name.
var QueryTypes = []uint16{1, 28, 2, 6, 15, 16, 5, 43, 255, 33, 12, 65, 64, 99, 13, 257}

// GenQuery draws one query for a world: mostly aimed at declared records
// (their owner and type, names under wildcards, names at and below NS
// owners), otherwise at arbitrary candidate names.
func GenQuery(t *rapid.T, w *World, names []string) Query {
	rrs := w.RRs()
	var n string
	var typ uint16
	mode := rapid.IntRange(0, 9).Draw(t, "qmode")
	if len(rrs) == 0 {
		mode = 9
	}
	switch {
	case mode <= 4: // a declared record
		r := rapid.SampledFrom(rrs).Draw(t, "qrr")
		n = r.Owner
		if r.Wild {
			n = rapid.SampledFrom([]string{"a", "ns", "x-1", "_s", "b.a", "a!b", "ab.a!b"}).Draw(t, "qwildlabel") + "." + n
		}
		typ = r.Type
		if rapid.IntRange(0, 3).Draw(t, "qothertype") == 0 {
			typ = rapid.SampledFrom(QueryTypes).Draw(t, "qtype")
		}
	case mode <= 6: // next to a declared record
		r := rapid.SampledFrom(rrs).Draw(t, "qrr")
		n = r.Owner
		switch rapid.IntRange(0, 2).Draw(t, "qrel") {
		case 0:
			n = parent(n)
		case 1:
			n = rapid.SampledFrom(Labels).Draw(t, "qchild") + "." + n
		default:
			n = rapid.SampledFrom(Labels).Draw(t, "qsib") + "." + parent(n)
		}
		n = strings.Trim(n, ".")
		typ = rapid.SampledFrom(QueryTypes).Draw(t, "qtype")
		if r.Type == 2 && rapid.Bool().Draw(t, "qds") {
			typ = 43
			n = r.Owner
			if rapid.IntRange(0, 2).Draw(t, "qds-below") == 0 {
				n = rapid.SampledFrom(Labels).Draw(t, "qds-label") + "." + n // DS for a name below the NS owner
			}
		}
	default:
		n = rapid.SampledFrom(names).Draw(t, "qname")
		typ = rapid.SampledFrom(QueryTypes).Draw(t, "qtype")
	}
	if len(n) > 250 {
		n = "a.net"
	}
	n = mixCase(t, n, "qname")
	q := Query{Name: n + ".", Type: typ, Class: 1, MaxAns: 1}
	if n == "" {
		q.Name = "."
	}
	if rapid.IntRange(0, 2).Draw(t, "max8") == 0 {
		q.MaxAns = rapid.SampledFrom([]int{2, 8}).Draw(t, "maxans")
	}
	if rapid.IntRange(0, 19).Draw(t, "qclass") == 0 {
		q.Class = rapid.SampledFrom([]uint16{3, 255}).Draw(t, "qclassv")
	}
	return q
}

// GenClient draws a client: a resolver from the pool, sometimes with ECS.
func GenClient(t *rapid.T) Client {
	c := Client{Resolver: rapid.SampledFrom(ClientPool).Draw(t, "resolver")}
	if rapid.IntRange(0, 3).Draw(t, "ecs") == 0 {
		a := rapid.SampledFrom(ClientPool).Draw(t, "ecsaddr")
		if strings.Contains(a, ":") {
			c.ECS = &ECS{Family: 2, Source: 128, Addr: a}
		} else {
			c.ECS = &ECS{Family: 1, Source: 32, Addr: a}
		}
	}
	return c
}

var txtAlphabet = []byte("abc ,:\\\"\x00\xff=;")
