package props

import (
	"bytes"
	"encoding/hex"
	"fmt"
	"os"
	"sort"
	"strconv"
	"strings"
	"testing"

	"github.com/facebookincubator/dns/dnsrocks/dnsdata"
	"pgregory.net/rapid"

	"verif/kit"
)

// C09: text normal form and preprocessing preserve meaning.
//
// Part A (line level): DecodeLn(line) -> M1 = MarshalMap, T1 = MarshalText;
// DecodeLn(T1) -> M2, T2; M2 == M1 and T2 == T1, with a fresh, identically
// configured codec per direction; the accumulator state left behind by '%'
// lines is compared too, the '!' lines the accumulator prints must compile to
// the records it marshals, and the records a composite line derives must
// round-trip on their own and add up to the composite.
//
// Part B (file level): rdb.Compile(file) and rdb.Compile(Preprocess(file))
// with the same serial give equal dumps, for v1 and v2 keys.

type c09Case struct {
	Part      string    `json:"part"` // "line" or "file"
	Hex       string    `json:"hex"`  // the line / the file, hex (may hold bytes that are not UTF-8)
	Show      []string  `json:"show,omitempty"`
	Serial    uint32    `json:"serial"`
	V2        bool      `json:"v2,omitempty"`
	Rdb       bool      `json:"rdb,omitempty"`        // codec configured as the RocksDB compiler does
	NoDerived bool      `json:"no_derived,omitempty"` // skip the derived-record check (server name starts with "*.")
	Mem       bool      `json:"mem,omitempty"`        // file case: compare parser output only, no RocksDB
	Line      *kit.Line `json:"line,omitempty"`
	Feats     []string  `json:"feats,omitempty"`
}

var c09KindName = map[byte]string{
	'Z': "soa", '.': "dot", '&': "ns", '+': "addr", '=': "paddr", '@': "mx", 'S': "srv", 'C': "cname", '^': "ptr",
	'\'': "txt", ':': "aux", 'B': "svcb", 'H': "https", 'M': "ipmap", '8': "csmap", '%': "net", '!': "rangepoint",
}

func c09Codec(serial uint32, v2, rdbMode bool) *dnsdata.Codec {
	c := new(dnsdata.Codec)
	c.Serial = serial
	c.Features.UseV2Keys = v2
	if rdbMode {
		c.Acc.Ranger.Enable()
		c.Acc.NoPrefixSets = true
		c.NoRnetOutput = true
	}
	return c
}

func c09EqualMR(a, b []dnsdata.MapRecord) bool {
	if len(a) != len(b) {
		return false
	}
	for i := range a {
		if !bytes.Equal(a[i].Key, b[i].Key) || !bytes.Equal(a[i].Value, b[i].Value) {
			return false
		}
	}
	return true
}

func c09ShowMR(m []dnsdata.MapRecord) string {
	var sb strings.Builder
	sb.WriteString("[")
	for i, r := range m {
		if i > 0 {
			sb.WriteString(" ")
		}
		fmt.Fprintf(&sb, "%q=%q", r.Key, r.Value)
	}
	sb.WriteString("]")
	return sb.String()
}

func c09SortedMR(m []dnsdata.MapRecord) []string {
	out := make([]string, 0, len(m))
	for _, r := range m {
		out = append(out, strconv.Quote(string(r.Key))+"="+strconv.Quote(string(r.Value)))
	}
	sort.Strings(out)
	return out
}

func c09Dup(b []byte) []byte { return append([]byte(nil), b...) }

// c09RoundTrip does the two-direction check for one line and returns the
// first record, its map and its text.
func c09RoundTrip(line []byte, mk func() *dnsdata.Codec, what string) (key, msg string, r1 dnsdata.Record, m1 []dnsdata.MapRecord, t1 []byte, c1, c2 *dnsdata.Codec) {
	kind := c09KindName[line[0]]
	c1 = mk()
	r1, err := c1.DecodeLn(c09Dup(line))
	if err != nil {
		return "wellformed-line-rejected", fmt.Sprintf("%s %q: DecodeLn: %v", what, line, err), nil, nil, nil, nil, nil
	}
	m1, err = r1.MarshalMap()
	if err != nil {
		return "marshalmap-error", fmt.Sprintf("%s %q: MarshalMap: %v", what, line, err), nil, nil, nil, nil, nil
	}
	t1, err = r1.MarshalText()
	if err != nil {
		return "marshaltext-error", fmt.Sprintf("%s %q: MarshalText: %v", what, line, err), nil, nil, nil, nil, nil
	}
	t1 = c09Dup(t1)
	if len(t1) == 0 || bytes.ContainsAny(t1, "\n") {
		return "normal-form-not-a-line", fmt.Sprintf("%s %q: text %q is empty or spans lines", what, line, t1), nil, nil, nil, nil, nil
	}
	c2 = mk()
	r2, err := c2.DecodeLn(c09Dup(t1))
	if err != nil {
		return "normal-form-rejected", fmt.Sprintf("%s %q: its text %q is rejected: %v", what, line, t1, err), nil, nil, nil, nil, nil
	}
	m2, err := r2.MarshalMap()
	if err != nil {
		return "marshalmap-error", fmt.Sprintf("%s %q: MarshalMap of re-read %q: %v", what, line, t1, err), nil, nil, nil, nil, nil
	}
	t2, err := r2.MarshalText()
	if err != nil {
		return "marshaltext-error", fmt.Sprintf("%s %q: MarshalText of re-read %q: %v", what, line, t1, err), nil, nil, nil, nil, nil
	}
	if !c09EqualMR(m1, m2) {
		return "map-differs-" + kind, fmt.Sprintf("%s %q compiles to %s, its text %q compiles to %s", what, line, c09ShowMR(m1), t1, c09ShowMR(m2)), nil, nil, nil, nil, nil
	}
	if !bytes.Equal(t1, t2) {
		return "text-not-idempotent-" + kind, fmt.Sprintf("%s %q: text %q re-serialises to %q", what, line, t1, t2), nil, nil, nil, nil, nil
	}
	return "", "", r1, m1, t1, c1, c2
}

// c09Line runs part A on one line.
func c09Line(c *c09Case) (string, string) {
	line, err := hex.DecodeString(c.Hex)
	if err != nil || len(line) < 2 {
		return "bad-case", "case does not hold a line"
	}
	kind := c09KindName[line[0]]
	mk := func() *dnsdata.Codec { return c09Codec(c.Serial, c.V2, c.Rdb) }
	key, msg, r1, m1, _, c1, c2 := c09RoundTrip(line, mk, "line")
	if key != "" {
		return key, msg
	}
	// accumulator state after the line, both directions
	a1, err1 := c1.Acc.MarshalMap()
	a2, err2 := c2.Acc.MarshalMap()
	if err1 != nil || err2 != nil {
		return "accumulator-error", fmt.Sprintf("line %q: Acc.MarshalMap: %v / %v", line, err1, err2)
	}
	s1, s2 := c09SortedMR(a1), c09SortedMR(a2)
	if strings.Join(s1, "\n") != strings.Join(s2, "\n") {
		return "accumulator-differs", fmt.Sprintf("line %q leaves accumulator %v, its text leaves %v", line, s1, s2)
	}
	if c.Rdb && line[0] == '%' {
		// the range points the accumulator prints must compile to the records
		// it marshals (a fresh codec: Rearrange is not re-entrant)
		c3 := mk()
		if _, err := c3.DecodeLn(c09Dup(line)); err != nil {
			return "wellformed-line-rejected", fmt.Sprintf("line %q: %v", line, err)
		}
		txt, err := c3.Acc.MarshalText()
		if err != nil {
			return "accumulator-error", fmt.Sprintf("line %q: Acc.MarshalText: %v", line, err)
		}
		var viaText []dnsdata.MapRecord
		for _, pl := range bytes.Split(bytes.TrimSuffix(txt, []byte("\n")), []byte("\n")) {
			if len(pl) == 0 {
				continue
			}
			k, m, _, pm, _, _, _ := c09RoundTrip(pl, mk, "range-point line (from "+strconv.Quote(string(line))+")")
			if k != "" {
				return k, m
			}
			viaText = append(viaText, pm...)
		}
		st := c09SortedMR(viaText)
		if strings.Join(st, "\n") != strings.Join(s1, "\n") {
			return "rangepoint-text-vs-map", fmt.Sprintf("line %q: accumulator marshals %v, its text %q compiles to %v", line, s1, txt, st)
		}
	}
	// derived records of a composite line
	if cr, ok := r1.(dnsdata.CompositeRecord); ok && !c.NoDerived {
		var union []dnsdata.MapRecord
		for i, d := range cr.DerivedRecords() {
			dm, err := d.MarshalMap()
			if err != nil {
				return "marshalmap-error", fmt.Sprintf("line %q derived %d: %v", line, i, err)
			}
			union = append(union, dm...)
			dt, err := d.MarshalText()
			if err != nil {
				return "marshaltext-error", fmt.Sprintf("line %q derived %d: %v", line, i, err)
			}
			k, m, _, dm2, _, _, _ := c09RoundTrip(c09Dup(dt), mk, fmt.Sprintf("derived record %d of %q:", i, line))
			if k != "" {
				return "derived-" + k, m
			}
			if !c09EqualMR(dm, dm2) {
				return "derived-map-differs-" + kind, fmt.Sprintf("line %q derived %d marshals %s, its text %q compiles to %s", line, i, c09ShowMR(dm), dt, c09ShowMR(dm2))
			}
		}
		if !c09EqualMR(union, m1) {
			return "derived-union-differs-" + kind, fmt.Sprintf("line %q compiles to %s, its derived records to %s", line, c09ShowMR(m1), c09ShowMR(union))
		}
	}
	return "", ""
}

// ---- part B ------------------------------------------------------------------

func c09Multi(m []dnsdata.MapRecord) map[string][]string {
	out := map[string][]string{}
	for _, r := range m {
		out[string(r.Key)] = append(out[string(r.Key)], string(r.Value))
	}
	return out
}

// c09DiffDump compares two key -> values maps, values as multisets.
func c09DiffDump(a, b map[string][]string) string {
	keys := map[string]bool{}
	for k := range a {
		keys[k] = true
	}
	for k := range b {
		keys[k] = true
	}
	ks := make([]string, 0, len(keys))
	for k := range keys {
		ks = append(ks, k)
	}
	sort.Strings(ks)
	for _, k := range ks {
		va, vb := append([]string(nil), a[k]...), append([]string(nil), b[k]...)
		sort.Strings(va)
		sort.Strings(vb)
		if len(va) != len(vb) || strings.Join(va, "\x00|") != strings.Join(vb, "\x00|") {
			return fmt.Sprintf("key %q: original %q, preprocessed %q (%d vs %d keys in all)", k, va, vb, len(a), len(b))
		}
	}
	return ""
}

func c09File(c *c09Case) (string, string) {
	file, err := hex.DecodeString(c.Hex)
	if err != nil {
		return "bad-case", "case does not hold a file"
	}
	pc := c09Codec(c.Serial, false, true) // as cmd/dnsrocks-preproc configures it
	var pre bytes.Buffer
	if err := pc.Preprocess(bytes.NewReader(file), &pre); err != nil {
		return "preprocess-error", fmt.Sprintf("Preprocess: %v", err)
	}
	for _, v2 := range []bool{false, true} {
		tag := "v1"
		if v2 {
			tag = "v2"
		}
		// (1) in memory, through the parser the compilers use
		ma, err := dnsdata.Parse(bytes.NewReader(file), c09Codec(c.Serial, v2, true), 1)
		if err != nil {
			return "wellformed-file-rejected", fmt.Sprintf("Parse(original): %v", err)
		}
		mb, err := dnsdata.Parse(bytes.NewReader(pre.Bytes()), c09Codec(c.Serial, v2, true), 1)
		if err != nil {
			return "preprocessed-file-rejected", fmt.Sprintf("Parse(preprocessed): %v\n%s", err, pre.Bytes())
		}
		if d := c09DiffDump(c09Multi(ma), c09Multi(mb)); d != "" {
			return "parse-differs-" + tag, d + "\npreprocessed:\n" + pre.String()
		}
		if c.Mem {
			continue
		}
		// (2) through RocksDB
		dir := kit.Scratch("c09")
		be := kit.RDBv1
		if v2 {
			be = kit.RDBv2
		}
		key, msg := func() (string, string) {
			defer os.RemoveAll(dir)
			da, db := dir+"/a", dir+"/b"
			_ = os.MkdirAll(da, 0o755)
			_ = os.MkdirAll(db, 0o755)
			pa, err := kit.Compile(file, c.Serial, da, be, kit.DefaultCompile)
			if err != nil {
				return "compile-error", fmt.Sprintf("rdb.Compile(original): %v", err)
			}
			pb, err := kit.Compile(pre.Bytes(), c.Serial, db, be, kit.DefaultCompile)
			if err != nil {
				return "compile-error", fmt.Sprintf("rdb.Compile(preprocessed): %v", err)
			}
			xa, err := kit.DumpRDBc09(pa)
			if err != nil {
				return "dump-error", err.Error()
			}
			xb, err := kit.DumpRDBc09(pb)
			if err != nil {
				return "dump-error", err.Error()
			}
			if d := c09DiffDump(xa, xb); d != "" {
				return "rdb-dump-differs-" + tag, d + "\npreprocessed:\n" + pre.String()
			}
			// the database holds what the parser produced
			if d := c09DiffDump(c09Multi(ma), xa); d != "" {
				return "rdb-dump-vs-parse-" + tag, d
			}
			return "", ""
		}()
		if key != "" {
			return key, msg
		}
	}
	return "", ""
}

func c09Run(t kit.Fataler, c *c09Case) {
	var key, msg string
	if c.Part == "file" {
		key, msg = c09File(c)
	} else {
		key, msg = c09Line(c)
	}
	if key != "" {
		kit.Fail(t, "C09", c09ShapeKey(key, c), c, "%s", msg)
	}
}

// c09ShapeKey names the failure by the input shape when the failing case has
// one of the shapes that are known to break the normal form, otherwise by the
// failed comparison.
func c09ShapeKey(key string, c *c09Case) string {
	has := func(f string) bool {
		for _, x := range c.Feats {
			if x == f {
				return true
			}
		}
		return false
	}
	switch {
	case (key == "map-differs-svcb" || key == "map-differs-https") && has("wildcard"):
		return "svcb-wildcard-owner"
	case (key == "map-differs-svcb" || key == "map-differs-https") && has("star-target"):
		return "svcb-target-star-label"
	case key == "map-differs-soa" && has("serial-zero"):
		return "soa-explicit-serial-zero"
	case (key == "map-differs-ipmap" || key == "map-differs-csmap") && has("root-wildcard-map"):
		return "map-root-wildcard"
	case has("single-label-x") && (key == "map-differs-dot" || key == "map-differs-ns" || key == "map-differs-mx" || key == "map-differs-srv"):
		return "single-label-server-name"
	case strings.HasPrefix(key, "parse-differs") && has("file-soa-serial-zero") && !has("file-leading-space-subnet"):
		return "soa-explicit-serial-zero"
	case strings.HasPrefix(key, "parse-differs") && has("file-leading-space-subnet") && !has("file-soa-serial-zero"):
		return "leading-space-subnet-line"
	}
	return key
}

// ---- known findings ------------------------------------------------------------

var c09KnownCases = []struct {
	key  string
	c    c09Case
	want string // failure key the minimal input must produce while the defect exists
}{
	{"svcb-wildcard-owner", c09Case{Part: "line", Hex: hex.EncodeToString([]byte("B*.a.example.com,t.example.com,300,,1,")), Serial: 7, Feats: []string{"wildcard"}}, "svcb-wildcard-owner"},
	{"soa-explicit-serial-zero", c09Case{Part: "line", Hex: hex.EncodeToString([]byte("Za.example.com,ns.a.example.com,adm.a.example.com,0")), Serial: 7, Feats: []string{"serial-zero"}}, "soa-explicit-serial-zero"},
	{"map-root-wildcard", c09Case{Part: "line", Hex: hex.EncodeToString([]byte("M*.,m1")), Serial: 7, Feats: []string{"root-wildcard-map"}}, "map-root-wildcard"},
	{"single-label-server-name", c09Case{Part: "line", Hex: hex.EncodeToString([]byte("&a.example.com,,ns.")), Serial: 7, Feats: []string{"single-label-x"}}, "single-label-server-name"},
	{"svcb-target-star-label", c09Case{Part: "line", Hex: hex.EncodeToString([]byte("Ha.example.com,*.*.example.com,300,,1,")), Serial: 7, Feats: []string{"star-target"}}, "svcb-target-star-label"},
	{"leading-space-subnet-line", c09Case{Part: "file", Hex: hex.EncodeToString([]byte(" %l1,10.0.0.0/8,m1\n%l2,192.0.2.0/24,m1\n")), Serial: 7, Feats: []string{"file-leading-space-subnet"}}, "leading-space-subnet-line"},
}

func c09Known(key string) bool { return kit.IsKnown("C09", key) }

// ---- generators ------------------------------------------------------------------

func c09Show(b []byte) []string {
	var out []string
	for _, l := range strings.Split(strings.TrimSuffix(string(b), "\n"), "\n") {
		out = append(out, strconv.Quote(l))
	}
	return out
}

func c09GenFile(t *rapid.T) (*c09Case, []string) {
	g := &kit.LineGen{T: t, Known: c09Known}
	var classes []string
	serial := uint32(rapid.SampledFrom([]uint64{0, 1, 1700000000, 4294967295}).Draw(t, "serial"))
	var lines []string
	if rapid.IntRange(0, 2).Draw(t, "world") != 0 {
		w := kit.GenWorld(t, kit.GenOpts{Wide: true, MaxLines: 24})
		for i := range w.Lines {
			l := &w.Lines[i]
			if l.K == 'Z' && l.N[0] == 0 {
				if c09Known("soa-explicit-serial-zero") {
					kit.Excluded("soa-explicit-serial-zero")
					l.N[0] = 1
				} else {
					classes = append(classes, "file-soa-serial-zero")
				}
			}
			lines = append(lines, l.Render())
		}
		classes = append(classes, "file-with-world")
	}
	nz := rapid.IntRange(0, 3).Draw(t, "nsoa")
	for i := 0; i < nz; i++ {
		_, _, s, fs := g.Draw("Z")
		lines = append(lines, s)
		for _, f := range fs {
			if f == "serial-zero" || f == "omitted" || f == "loc" || f == "escape" {
				classes = append(classes, "file-soa-"+f)
			}
		}
	}
	nx := rapid.IntRange(0, 6).Draw(t, "nextra")
	for i := 0; i < nx; i++ {
		kinds := ".&+=@SC^':BHM8"
		if rapid.IntRange(0, 9).Draw(t, "rp") == 9 {
			kinds = "!"
			classes = append(classes, "file-with-rangepoint-line")
		}
		_, _, s, _ := g.Draw(kinds)
		lines = append(lines, s)
	}
	// subnets: few maps, a small set of prefixes so that nesting, adjacency
	// and repetition happen
	ns := rapid.SampledFrom([]int{0, 1, 2, 3, 5, 8, 12}).Draw(t, "nsub")
	maps := []string{"m1", "m2", "", "a,"}
	fam := map[string]bool{}
	for i := 0; i < ns; i++ {
		l := kit.Line{K: '%', TTL: -1, N: [5]int64{-1, -1, -1, -1, -1}}
		l.Loc = rapid.SampledFrom(kit.LineLocs[:6]).Draw(t, "subloc")
		l.CIDR = rapid.SampledFrom(kit.LineCIDRs).Draw(t, "cidr")
		l.MapID = maps[rapid.SampledFrom([]int{0, 0, 0, 1, 2, 3}).Draw(t, "submap")]
		st := kit.LineStyle{Esc: rapid.IntRange(0, 3).Draw(t, "esc"), KeepTrailing: rapid.IntRange(0, 7).Draw(t, "trail") == 7}
		if !strings.Contains(l.CIDR, ":") && rapid.IntRange(0, 5).Draw(t, "colon") == 5 {
			st.Colon = true
		}
		s, _ := kit.RenderStyled(&l, st)
		if rapid.IntRange(0, 11).Draw(t, "lead") == 11 {
			if c09Known("leading-space-subnet-line") {
				kit.Excluded("leading-space-subnet-line")
			} else {
				s = " " + s
				classes = append(classes, "file-leading-space-subnet")
			}
		}
		lines = append(lines, s)
		switch {
		case l.CIDR == "":
			fam["empty"] = true
		case strings.HasPrefix(l.CIDR, "::ffff:"):
			fam["v4mapped"] = true
		case strings.Contains(l.CIDR, ":"):
			fam["v6"] = true
		default:
			fam["v4"] = true
		}
		if l.CIDR != "" && !strings.Contains(l.CIDR, "/") {
			fam["bare"] = true
		}
	}
	if ns > 0 && rapid.IntRange(0, 9).Draw(t, "many") == 9 {
		// more than 100 range points in one map: the accumulator scanner emits several chunks
		n := rapid.IntRange(55, 90).Draw(t, "nmany")
		for i := 0; i < n; i++ {
			lines = append(lines, fmt.Sprintf("%%%s,10.9.%d.%d/32,m1", []string{"l1", "l2"}[i%2], i/16, (i%16)*2))
		}
		classes = append(classes, "file-over-100-range-points")
	}
	for _, f := range []string{"empty", "v4", "v4mapped", "v6", "bare"} {
		if fam[f] {
			classes = append(classes, "file-subnet-"+f)
		}
	}
	classes = append(classes, fmt.Sprintf("file-subnets-%s", sizeClass(ns)))
	// order, comments, blank lines
	if len(lines) > 1 && rapid.Bool().Draw(t, "shuffle") {
		lines = rapid.Permutation(lines).Draw(t, "order")
	}
	var b bytes.Buffer
	for _, s := range lines {
		switch rapid.IntRange(0, 19).Draw(t, "noise") {
		case 19:
			b.WriteString("# comment, with: separators\n")
			classes = append(classes, "file-comment")
		case 18:
			b.WriteString("\n")
			classes = append(classes, "file-blank-line")
		case 17:
			if s[0] != '%' {
				s = "  " + s // the compilers skip leading spaces
				classes = append(classes, "file-leading-space")
			}
		}
		b.WriteString(s)
		b.WriteString("\n")
	}
	file := b.Bytes()
	if len(file) > 0 && rapid.IntRange(0, 7).Draw(t, "nofinalnl") == 7 {
		file = file[:len(file)-1]
		classes = append(classes, "file-no-final-newline")
	}
	if bytes.Contains(file, []byte("\n%")) || bytes.HasPrefix(file, []byte("%")) {
		classes = append(classes, "file-nontrivial-subnets")
	}
	if bytes.Contains(file, []byte("\nZ")) || bytes.HasPrefix(file, []byte("Z")) || bytes.Contains(file, []byte(" Z")) {
		classes = append(classes, "file-nontrivial-soa")
	}
	c := &c09Case{Part: "file", Hex: hex.EncodeToString(file), Show: c09Show(file), Serial: serial}
	for _, cl := range classes {
		if cl == "file-soa-serial-zero" || cl == "file-leading-space-subnet" {
			c.Feats = append(c.Feats, cl)
		}
	}
	return c, classes
}

func TestC09(t *testing.T) {
	if f := kit.ReplayFile(); f != "" {
		var c c09Case
		kit.LoadReplay(t, f, &c)
		c09Run(t, &c)
		kit.Eval()
		return
	}
	// known findings: the minimal input of each listed defect must still show it
	for _, kc := range c09KnownCases {
		if !c09Known(kc.key) {
			continue
		}
		c := kc.c
		var key string
		if c.Part == "file" {
			key, _ = c09File(&c)
		} else {
			key, _ = c09Line(&c)
		}
		if key != "" {
			key = c09ShapeKey(key, &c)
		}
		if key == kc.want {
			kit.KnownSeen("C09", kc.key)
		} else {
			kit.Note("known finding %s: minimal input gave %q instead of %q", kc.key, key, kc.want)
		}
	}

	// part A: lines
	kit.SetRapid(kit.N(160000, 2400000))
	rapid.Check(t, kit.Prop("C09", func(t *rapid.T) {
		g := &kit.LineGen{T: t, Known: c09Known}
		l, _, text, feats := g.Draw(kit.AllKinds)
		c := &c09Case{Part: "line", Hex: hex.EncodeToString([]byte(text)), Show: []string{strconv.Quote(text)}, Line: &l, Feats: feats}
		c.Serial = uint32(rapid.SampledFrom([]uint64{0, 1, 123456, 4294967295}).Draw(t, "serial"))
		c.V2 = rapid.Bool().Draw(t, "v2")
		c.Rdb = rapid.Bool().Draw(t, "rdbmode")
		c.NoDerived = strings.HasPrefix(l.X, "*.") || l.X == "*"
		kit.Case(c)
		c09Run(t, c)
		kind := c09KindName[l.K]
		kit.Class("line-" + kind)
		for _, f := range feats {
			kit.Class("feat-" + f)
		}
		if len(feats) > 0 {
			kit.NonTrivial(kind + "|" + strings.Join(feats, ","))
		}
		kit.Sample(c)
	}))

	// part B: files; first many through the parser only, then through RocksDB
	for _, mem := range []bool{true, false} {
		if mem {
			kit.SetRapid(kit.N(8000, 120000))
		} else {
			if os.Getenv("C09_SKIP_B") != "" {
				return
			}
			kit.SetRapid(kit.N(160, 2400))
		}
		mem := mem
		rapid.Check(t, kit.Prop("C09", func(t *rapid.T) {
			c, classes := c09GenFile(t)
			c.Mem = mem
			kit.Case(c)
			c09Run(t, c)
			seen := map[string]bool{}
			nontrivial := false
			for _, cl := range classes {
				if !seen[cl] {
					seen[cl] = true
					kit.Class(cl)
				}
				if strings.HasPrefix(cl, "file-nontrivial") {
					nontrivial = true
				}
			}
			if mem {
				kit.Class("file-parser-only")
			} else {
				kit.Class("file-rocksdb")
			}
			if nontrivial {
				kit.NonTrivial("file|" + c.Hex)
			}
			kit.Sample(c)
		}))
	}
}
