#!/usr/bin/env python3
"""Refresh the generated tables of DESIGN.md (findings, seeded changes) from known_findings.json and seeded/."""
import json, os, re
root = os.path.dirname(os.path.abspath(__file__))
p = os.path.join(root, "DESIGN.md")
s = open(p).read()
d = json.load(open(os.path.join(root, "known_findings.json")))
rows = ["| property | shape key | status | what failed |", "|---|---|---|---|"]
for e in d["findings"]:
    st = e["status"] + ((" " + e["commit"]) if e.get("commit") else "")
    rows.append("| %s | %s | %s | %s |" % (e["property"], e["key"], st, e["what"].replace("|", "\\|")))
block = "<!-- FINDINGS-TABLE-BEGIN -->\n" + "\n".join(rows) + "\n<!-- FINDINGS-TABLE-END -->"
s = re.sub(r"<!-- FINDINGS-TABLE-BEGIN -->.*?<!-- FINDINGS-TABLE-END -->", lambda m: block, s, flags=re.S)
idx = os.path.join(root, "seeded", "INDEX.md")
if os.path.exists(idx) and "<!-- SEEDED-TABLE-BEGIN -->" in s:
    t = open(idx).read()
    t = t[t.index("| id |"):]
    block2 = "<!-- SEEDED-TABLE-BEGIN -->\n" + t + "<!-- SEEDED-TABLE-END -->"
    s = re.sub(r"<!-- SEEDED-TABLE-BEGIN -->.*?<!-- SEEDED-TABLE-END -->", lambda m: block2, s, flags=re.S)
open(p, "w").write(s)
print("DESIGN.md tables refreshed: %d findings" % len(d["findings"]))
