package props

import (
	"bytes"
	"encoding/hex"
	"fmt"
	"testing"

	"github.com/facebookincubator/dns/dnsrocks/dnsdata"
	"github.com/facebookincubator/dns/dnsrocks/dnsdata/quote"
	"pgregory.net/rapid"

	"verif/kit"
)

// C17: quoting is a bijection that never emits a field separator.

type c17Case struct {
	Hex    string `json:"hex"`
	Quoted string `json:"quoted,omitempty"`
	Stage  string `json:"stage,omitempty"`
}

func c17NonTrivial(s []byte) bool {
	for _, c := range s {
		if c < 0x20 || c > 0x7e || c == '\\' || c == '"' || c == ',' || c == ':' {
			return true
		}
	}
	return false
}

// c17Unit checks the round trip and the separator freedom; it returns a
// failure key and message, or "".
func c17Unit(s []byte) (string, string, []byte) {
	in := append([]byte(nil), s...)
	q := quote.Bquote(in)
	if !bytes.Equal(in, s) {
		return "quote-mutates-input", "Bquote changed its argument", q
	}
	if i := bytes.IndexAny(q, ",:\n"); i >= 0 {
		return "separator-in-quoted", fmt.Sprintf("quoted form %q contains separator %q", q, q[i]), q
	}
	qq := append([]byte(nil), q...)
	u, err := quote.Bunquote(qq)
	if err != nil {
		return "unquote-error", fmt.Sprintf("Bunquote(%q): %v", q, err), q
	}
	if !bytes.Equal(u, s) {
		return "roundtrip-mismatch", fmt.Sprintf("Bunquote(Bquote(%x)) = %x via %q", s, u, q), q
	}
	return "", "", q
}

// c17Field places the quoted form in data-file fields and reads it back
// through the real line codec.
// c17Field places the quoted string in data-file fields; the data-file syntax
// takes the first ',' or ':' of a line as its separator, so both are used.
func c17Field(s []byte, q []byte) (string, string) {
	if k, m := c17FieldSep(s, q, ","); k != "" {
		return k, m
	}
	if k, m := c17FieldSep(s, q, ":"); k != "" {
		return k + "/colon-separated", m
	}
	return "", ""
}

func c17FieldSep(s []byte, q []byte, sep string) (string, string) {
	codec := new(dnsdata.Codec)
	// TXT text field
	line := append([]byte("'t.example.com"+sep), q...)
	line = append(line, []byte(sep+"300")...)
	mr, err := codec.ConvertLn(line)
	if err != nil {
		return "txt-line-rejected", fmt.Sprintf("line %q: %v", line, err)
	}
	if len(mr) != 1 {
		return "txt-line-records", fmt.Sprintf("line %q gave %d records", line, len(mr))
	}
	// value = type(2) '=' ttl(4) ttd(8) then <len><chunk>...
	v := mr[0].Value
	if len(v) < 15 {
		return "txt-line-short", fmt.Sprintf("value too short: %x", v)
	}
	if ttl := v[3:7]; !bytes.Equal(ttl, []byte{0, 0, 1, 44}) {
		return "txt-field-shift", fmt.Sprintf("line %q: ttl field decoded as %x (text leaked into the next field)", line, ttl)
	}
	var got []byte
	rest := v[15:]
	for len(rest) > 0 {
		n := int(rest[0])
		if n == 0 || n > 127 || 1+n > len(rest) {
			return "txt-chunking", fmt.Sprintf("bad chunk length %d in %x", n, v[15:])
		}
		got = append(got, rest[1:1+n]...)
		rest = rest[1+n:]
	}
	if !bytes.Equal(got, s) {
		return "txt-field-mismatch", fmt.Sprintf("TXT line %q stored %x, want %x", line, got, s)
	}
	// generic record rdata field
	line = append([]byte(":g.example.com"+sep+"65280"+sep), q...)
	line = append(line, []byte(sep+"301")...)
	mr, err = codec.ConvertLn(line)
	if err != nil || len(mr) != 1 {
		return "aux-line-rejected", fmt.Sprintf("line %q: %v (%d records)", line, err, len(mr))
	}
	v = mr[0].Value
	if len(v) < 15 || !bytes.Equal(v[3:7], []byte{0, 0, 1, 45}) {
		return "aux-field-shift", fmt.Sprintf("line %q: value %x", line, v)
	}
	if !bytes.Equal(v[15:], s) {
		return "aux-field-mismatch", fmt.Sprintf("generic line %q stored %x, want %x", line, v[15:], s)
	}
	// owner-name field: a label holding arbitrary 7-bit bytes but no dot.
	// (Bytes >= 0x80 are left out: the key builder lower-cases names with
	// the Unicode-aware bytes.ToLower, which is not part of quoting.)
	if len(s) >= 1 && len(s) <= 63 && !bytes.ContainsAny(s, ".") && !bytes.HasPrefix(s, []byte("*")) && isASCII(s) {
		line = append([]byte("+"), q...)
		line = append(line, []byte(".example.com"+sep+"1.2.3.4"+sep+"302")...)
		mr, err = codec.ConvertLn(line)
		if err != nil || len(mr) != 1 {
			return "name-line-rejected", fmt.Sprintf("line %q: %v (%d records)", line, err, len(mr))
		}
		want := append([]byte{0, 0, byte(len(s))}, bytes.ToLower(s)...)
		want = append(want, []byte("\x07example\x03com\x00")...)
		if !bytes.Equal(mr[0].Key, want) {
			return "name-field-mismatch", fmt.Sprintf("line %q: key %x want %x", line, mr[0].Key, want)
		}
		// the same name written into a field by the repository's own text writer
		// (which quotes it label by label) and read back
		rec, err := new(dnsdata.Codec).DecodeLn(append([]byte(nil), line...))
		if err != nil {
			return "name-line-rejected", fmt.Sprintf("line %q: DecodeLn: %v", line, err)
		}
		text, err := rec.MarshalText()
		if err != nil {
			return "name-text-error", fmt.Sprintf("line %q: MarshalText: %v", line, err)
		}
		if i := bytes.IndexByte(text, ','); i < 0 || bytes.ContainsAny(text[:i], ":\n") {
			return "separator-in-written-name", fmt.Sprintf("line %q written as %q", line, text)
		}
		mr2, err := new(dnsdata.Codec).ConvertLn(append([]byte(nil), text...))
		if err != nil || len(mr2) != 1 {
			return "written-name-rejected", fmt.Sprintf("line %q written as %q: %v (%d records)", line, text, err, len(mr2))
		}
		if !bytes.Equal(mr2[0].Key, want) {
			return "written-name-mismatch", fmt.Sprintf("line %q written as %q: key %x want %x", line, text, mr2[0].Key, want)
		}
	}
	return "", ""
}

// c17Name: a multi-label owner name, every label quoted, in a '+' line with
// either separator; the record key must hold exactly these labels.
func c17Name(labels [][]byte) (string, string) {
	var quoted [][]byte
	want := []byte{0, 0}
	for _, l := range labels {
		if bytes.ContainsAny(l, ".") || !isASCII(l) {
			return "", ""
		}
		quoted = append(quoted, quote.Bquote(l))
		want = append(want, byte(len(l)))
		want = append(want, bytes.ToLower(l)...)
	}
	want = append(want, []byte("\x07example\x03com\x00")...)
	qn := bytes.Join(quoted, []byte("."))
	for _, sep := range []string{",", ":"} {
		line := append([]byte("+"), qn...)
		line = append(line, []byte(".example.com"+sep+"1.2.3.4"+sep+"302")...)
		mr, err := new(dnsdata.Codec).ConvertLn(append([]byte(nil), line...))
		if err != nil || len(mr) != 1 {
			return "name-line-rejected", fmt.Sprintf("line %q (%d-byte quoted name): %v (%d records)", line, len(qn), err, len(mr))
		}
		if !bytes.Equal(mr[0].Key, want) {
			return "name-field-mismatch", fmt.Sprintf("line %q (%d-byte quoted name): key %x want %x", line, len(qn), mr[0].Key, want)
		}
	}
	return "", ""
}

func c17One(t kit.Fataler, s []byte, field bool) {
	key, msg, q := c17Unit(s)
	if key == "" && field {
		key, msg = c17Field(s, q)
	}
	if key != "" {
		kit.Fail(t, "C17", key, c17Case{Hex: hex.EncodeToString(s), Quoted: string(q)}, "%s", msg)
	}
}

func TestC17(t *testing.T) {
	if f := kit.ReplayFile(); f != "" {
		var c c17Case
		kit.LoadReplay(t, f, &c)
		s, _ := hex.DecodeString(c.Hex)
		c17One(t, s, true)
		kit.Eval()
		return
	}
	// (1) exhaustive enumeration: lengths 0..2 always (sharded by first byte),
	// length 3 as well (16.8 M strings) - quick keeps the field round trip to
	// lengths <= 2, thorough applies it to length 3 too.
	shard, n := kit.Shard(), kit.NShards()
	var buf [3]byte
	var cnt, nt int64
	one := func(s []byte, field bool) {
		c17One(t, s, field)
		cnt++
		if c17NonTrivial(s) {
			nt++
		}
	}
	if shard == 0 {
		one(nil, true)
	}
	for length := 1; length <= 3; length++ { // shorter strings first: the first failure is a minimal one
		for a := 0; a < 256; a++ {
			if a%n != shard {
				continue
			}
			buf[0] = byte(a)
			if length == 1 {
				one(buf[:1], true)
				continue
			}
			for b := 0; b < 256; b++ {
				buf[1] = byte(b)
				if length == 2 {
					one(buf[:2], true)
					continue
				}
				for c := 0; c < 256; c++ {
					buf[2] = byte(c)
					one(buf[:3], kit.Thorough())
				}
			}
		}
	}
	kit.EvalN(cnt)
	kit.NonTrivialDistinct(nt)
	kit.ClassN("exhaustive-len<=3", cnt)
	kit.SetExhaustive()
	kit.SampleForce(c17Case{Hex: hex.EncodeToString(buf[:3]), Quoted: string(quote.Bquote(buf[:3])), Stage: "exhaustive"})

	// (2) rapid: long strings from an alphabet biased to the bytes the
	// quoting code treats specially and to UTF-8 structure.
	special := []byte{'\\', '"', ',', ':', '\n', '\r', '\t', 0, 0x7f, 0x80, 0xff, 0xc2, 0xa0, 0xef, 0xbf, 0xbd, 0xe2, 0x80, 0xa8, 0xf0, 0x9f, 0x98, 0x80, 0xc0, 0xaf, 0xed, 0xa0, 'x', '0', '5', '4', 'u', 'U', 'n', '\'', ' ', '.'}
	frag := rapid.OneOf(
		rapid.SliceOfN(rapid.SampledFrom(special), 1, 4),
		rapid.SliceOfN(rapid.Byte(), 1, 3),
		rapid.Map(rapid.Rune(), func(r rune) []byte { return []byte(string(r)) }),
		rapid.SampledFrom([][]byte{[]byte(`\"`), []byte(`\\"`), []byte(`\054`), []byte(`\x2c`), []byte(`,`), []byte("\xef\xbf\xbd"), []byte(`\072`), []byte(`"\`), []byte(`\`)}),
	)
	gen := rapid.Map(rapid.SliceOfN(frag, 0, 200), func(fs [][]byte) []byte { return bytes.Join(fs, nil) })
	kit.SetRapid(kit.N(200000, 4000000))
	rapid.Check(t, kit.Prop("C17", func(t *rapid.T) {
		s := gen.Draw(t, "s")
		kit.Case(c17Case{Hex: hex.EncodeToString(s)})
		c17One(t, s, true)
		if c17NonTrivial(s) {
			kit.NonTrivial(string(s))
		}
		kit.Class(fmt.Sprintf("rapid-len-%s", sizeClass(len(s))))
		kit.Sample(c17Case{Hex: hex.EncodeToString(s), Quoted: string(quote.Bquote(s)), Stage: "rapid"})
	}))
	// (3) labels: 1..63 seven-bit bytes, most of which need escaping, placed in
	// an owner-name field (directly and through the text writer)
	labAlpha := []byte{0, 1, 2, 7, 8, 9, 10, 13, 27, 31, 127, ',', ':', '\\', '"', ' ', 'a', 'Z', '-', '_', '*', '0'}
	kit.SetRapid(kit.N(20000, 400000))
	rapid.Check(t, kit.Prop("C17", func(t *rapid.T) {
		n := rapid.SampledFrom([]int{1, 2, 3, 10, 15, 16, 17, 21, 40, 62, 63}).Draw(t, "lablen")
		s := make([]byte, n)
		for i := range s {
			s[i] = rapid.SampledFrom(labAlpha).Draw(t, "labbyte")
		}
		if s[0] == '*' {
			s[0] = 'x'
		}
		kit.Case(c17Case{Hex: hex.EncodeToString(s)})
		c17One(t, s, true)
		// the same label as the first of several: an owner name whose quoted form is
		// longer than the 255 octets a name can have on the wire
		labels := [][]byte{s}
		total := len(s) + 1
		for i := 0; i < 3; i++ {
			m := rapid.SampledFrom([]int{5, 20, 40, 63}).Draw(t, "lablen2")
			if total+m+1 > 240 {
				break
			}
			l := make([]byte, m)
			for j := range l {
				l[j] = rapid.SampledFrom(labAlpha).Draw(t, "labbyte2")
			}
			if l[0] == '*' {
				l[0] = 'x'
			}
			labels = append(labels, l)
			total += m + 1
		}
		if key, msg := c17Name(labels); key != "" {
			kit.Fail(t, "C17", key, c17Case{Hex: hex.EncodeToString(bytes.Join(labels, []byte("."))), Stage: "multi-label name"}, "%s", msg)
		}
		kit.NonTrivial("label|" + string(s))
		kit.Class(fmt.Sprintf("label-len-%s/quoted-%s", sizeClass(len(s)), sizeClass(len(quote.Bquote(s)))))
		kit.Sample(c17Case{Hex: hex.EncodeToString(s), Quoted: string(quote.Bquote(s)), Stage: "label"})
	}))
}

func isASCII(s []byte) bool {
	for _, c := range s {
		if c >= 0x80 {
			return false
		}
	}
	return true
}

func sizeClass(n int) string {
	switch {
	case n == 0:
		return "0"
	case n <= 3:
		return "1-3"
	case n <= 16:
		return "4-16"
	case n <= 127:
		return "17-127"
	case n <= 255:
		return "128-255"
	default:
		return "256+"
	}
}
