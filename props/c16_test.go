package props

import (
	"bufio"
	"bytes"
	"encoding/hex"
	"errors"
	"fmt"
	"io"
	"os"
	"path/filepath"
	"runtime"
	"sort"
	"strconv"
	"strings"
	"sync"
	"testing"

	spooky "github.com/dgryski/go-spooky"
	cdb "github.com/repustate/go-cdb"
	"pgregory.net/rapid"

	"verif/kit"
)

// C16: a written CDB file returns every value, in order, and nothing else;
// Dump -> Make reproduces the file.
//
// Oracles (none of them reuses go-cdb-mods):
//   - the expected answer of a lookup is computed from the written sequence;
//   - the file is parsed by kit.ParseCDBBytes (independent reader), its tables
//     are verified (kit.CDBFile.Verify) and looked up by the reference prober;
//   - the text form is rendered by the harness (c16Render) and compared with
//     Dump; Make(text) and Make(Dump(file)) are compared with the writer's file.
//
// The hash is github.com/dgryski/go-spooky (third party, the package's hash.go
// only wraps it); it is used to craft slot collisions and to verify the tables.

const (
	c16DumpKey = "dump-short-read"
	c16HashKey = "key-len-96-191-not-found"
)

type c16Case struct {
	Shape string `json:"shape"`
	// Pairs in insertion order; key and value are blobs: hex, or "#N:S" for
	// the N-byte pattern number S (c16Blob).
	Pairs  [][2]string `json:"pairs"`
	Absent []string    `json:"absent,omitempty"`
	// Ctx: 0 fresh Context per key, 1 one Context reused for all keys,
	// 2 several keys iterated round-robin, one Context each.
	Ctx int `json:"ctx"`
	// DumpVia / MakeVia: 0 bytes.Reader, -1 the file itself (Dump only),
	// n>0 a reader that hands out at most n bytes per Read call.
	DumpVia int `json:"dump_via"`
	MakeVia int `json:"make_via"`
}

type c16Stats struct {
	records, distinct, maxChain, maxVals, absentInChain int
	wrapped, big, sameHash                              bool
}

func c16Blob(s string) []byte {
	if strings.HasPrefix(s, "#") {
		var n, seed int
		if _, err := fmt.Sscanf(s, "#%d:%d", &n, &seed); err != nil || n < 0 || n > 1<<24 {
			panic("bad blob " + s)
		}
		b := make([]byte, n)
		for i := range b {
			b[i] = byte(i*131 + seed*29 + (i >> 8) + (i>>3)*seed)
		}
		return b
	}
	b, err := hex.DecodeString(s)
	if err != nil {
		panic("bad blob " + s)
	}
	return b
}

func c16Hex(b []byte) string { return hex.EncodeToString(b) }

// c16Render is the harness' own rendering of the cdbmake text format.
func c16Render(pairs []kit.KV) []byte {
	var b bytes.Buffer
	for _, p := range pairs {
		b.WriteByte('+')
		b.WriteString(strconv.Itoa(len(p.Key)))
		b.WriteByte(',')
		b.WriteString(strconv.Itoa(len(p.Value)))
		b.WriteByte(':')
		b.Write(p.Key)
		b.WriteString("->")
		b.Write(p.Value)
		b.WriteByte('\n')
	}
	b.WriteByte('\n')
	return b.Bytes()
}

type c16Chunk struct {
	r io.Reader
	n int
}

func (c *c16Chunk) Read(p []byte) (int, error) {
	if len(p) > c.n {
		p = p[:c.n]
	}
	return c.r.Read(p)
}

func c16Reader(b []byte, via int) io.Reader {
	if via > 0 {
		return &c16Chunk{bytes.NewReader(b), via}
	}
	return bytes.NewReader(b)
}

// c16Mem is an in-memory io.WriteSeeker.
type c16Mem struct {
	b   []byte
	off int64
}

func (m *c16Mem) Write(p []byte) (int, error) {
	if end := m.off + int64(len(p)); end > int64(len(m.b)) {
		m.b = append(m.b, make([]byte, end-int64(len(m.b)))...)
	}
	copy(m.b[m.off:], p)
	m.off += int64(len(p))
	return len(p), nil
}

func (m *c16Mem) Seek(off int64, whence int) (int64, error) {
	switch whence {
	case io.SeekStart:
		m.off = off
	case io.SeekCurrent:
		m.off += off
	case io.SeekEnd:
		m.off = int64(len(m.b)) + off
	}
	if m.off < 0 {
		return 0, errors.New("negative seek")
	}
	return m.off, nil
}

func c16Short(b []byte) string {
	if len(b) > 24 {
		return fmt.Sprintf("%x...(%d bytes)", b[:24], len(b))
	}
	return fmt.Sprintf("%x", b)
}

func c16FirstDiff(a, b []byte) string {
	n := len(a)
	if len(b) < n {
		n = len(b)
	}
	for i := 0; i < n; i++ {
		if a[i] != b[i] {
			return fmt.Sprintf("lengths %d/%d, first difference at offset %d", len(a), len(b), i)
		}
	}
	return fmt.Sprintf("lengths %d/%d, common prefix equal", len(a), len(b))
}

var (
	c16Runs int
	c16Dir  string // scratch directory of this process (under kit.OutDir()), removed at the end of the test
)

// c16Run executes one case; on violation it reports through kit.Fail.
func c16Run(t kit.Fataler, c *c16Case) (s c16Stats) {
	fail := func(key, format string, a ...interface{}) {
		kit.Fail(t, "C16", key, c, format, a...)
	}
	if c16Runs++; c16Runs%400 == 0 {
		runtime.GC() // the writer never closes its *os.File; let finalizers do it
	}
	pairs := make([]kit.KV, len(c.Pairs))
	for i, p := range c.Pairs {
		pairs[i] = kit.KV{Key: c16Blob(p[0]), Value: c16Blob(p[1])}
	}
	s.records = len(pairs)
	// expected model: keys in order of first appearance, values in insertion order
	var order []string
	want := map[string][][]byte{}
	for _, p := range pairs {
		k := string(p.Key)
		if _, ok := want[k]; !ok {
			order = append(order, k)
		}
		want[k] = append(want[k], p.Value)
	}
	s.distinct = len(order)

	if c16Dir == "" {
		t.Fatalf("infrastructure: no scratch directory")
	}
	path := filepath.Join(c16Dir, "w.cdb")
	defer os.Remove(path)
	w, err := cdb.NewWriter(path)
	if err != nil {
		fail("writer-error", "NewWriter: %v", err)
	}
	for i, p := range pairs {
		if err := w.Put(p.Key, p.Value); err != nil {
			fail("writer-error", "Put #%d: %v", i, err)
		}
	}
	if err := w.Close(); err != nil {
		fail("writer-error", "Close: %v", err)
	}
	raw, err := os.ReadFile(path)
	if err != nil {
		t.Fatalf("infrastructure: %v", err)
	}
	s.big = len(raw) > 4096

	// (1) independent parse: same pair sequence, consistent tables
	f, err := kit.ParseCDBBytes(raw)
	if err != nil {
		fail("file-unparsable", "independent reader: %v", err)
	}
	if len(f.Records) != len(pairs) {
		fail("records-mismatch", "file holds %d records, %d were written", len(f.Records), len(pairs))
	}
	for i, p := range pairs {
		if !bytes.Equal(f.Records[i].Key, p.Key) || !bytes.Equal(f.Records[i].Value, p.Value) {
			fail("records-mismatch", "record %d is (%s,%s), written (%s,%s)", i, c16Short(f.Records[i].Key), c16Short(f.Records[i].Value), c16Short(p.Key), c16Short(p.Value))
		}
	}
	if err := f.Verify(spooky.Hash32); err != nil {
		var he *kit.CDBHashError
		if errors.As(err, &he) {
			// the writer filed the record under another hash than the reader
			// computes: confirm the consequence with the reader under test
			k := pairs[he.Record].Key
			if db, e := cdb.Open(path); e == nil {
				_, e = db.Find(k, cdb.NewContext())
				db.Close()
				if e == io.EOF {
					fail(c16HashKey, "key of %d bytes %s was written but Find returns end of data: the writer filed it under hash %#x (table %d), the reader looks for %#x (table %d)",
						len(k), c16Short(k), he.Stored, he.Stored&0xff, he.Computed, he.Computed&0xff)
				}
			}
		}
		fail("table-inconsistent", "hash tables: %v", err)
	}
	hashes := map[uint32]bool{}
	for _, k := range order {
		h := spooky.Hash32([]byte(k))
		if hashes[h] {
			s.sameHash = true
		}
		hashes[h] = true
		vals, probes, wrapped := f.Lookup([]byte(k), h)
		if len(vals) != len(want[k]) {
			fail("layout-lookup-mismatch", "reference prober finds %d values of key %s, %d written", len(vals), c16Short([]byte(k)), len(want[k]))
		}
		for i := range vals {
			if !bytes.Equal(vals[i], want[k][i]) {
				fail("layout-lookup-mismatch", "reference prober: value %d of key %s out of order", i, c16Short([]byte(k)))
			}
		}
		if probes-1 > s.maxChain {
			s.maxChain = probes - 1
		}
		if len(vals) > s.maxVals {
			s.maxVals = len(vals)
		}
		s.wrapped = s.wrapped || wrapped
	}

	// (2) the reader under test
	db, err := cdb.Open(path)
	if err != nil {
		fail("open-error", "Open: %v", err)
	}
	defer db.Close()
	check := func(k string, i int, v []byte, err error) bool { // returns true when key k is finished
		exp := want[k]
		switch {
		case err == io.EOF:
			if i < len(exp) {
				fail("lookup-missing-value", "key %s: end of data after %d values, %d written", c16Short([]byte(k)), i, len(exp))
			}
			return true
		case err != nil:
			fail("lookup-error", "key %s value %d: %v", c16Short([]byte(k)), i, err)
		case i >= len(exp):
			fail("lookup-extra-value", "key %s: value #%d %s returned, only %d written", c16Short([]byte(k)), i, c16Short(v), len(exp))
		case !bytes.Equal(v, exp[i]):
			fail("lookup-wrong-value", "key %s: value #%d is %s, written %s", c16Short([]byte(k)), i, c16Short(v), c16Short(exp[i]))
		}
		return false
	}
	shared := cdb.NewContext()
	switch c.Ctx {
	case 2:
		const win = 8
		for lo := 0; lo < len(order); lo += win {
			hi := lo + win
			if hi > len(order) {
				hi = len(order)
			}
			ctxs := make([]*cdb.Context, hi-lo)
			cnt := make([]int, hi-lo)
			done := make([]bool, hi-lo)
			for i := range ctxs {
				ctxs[i] = cdb.NewContext()
				db.FindStart(ctxs[i])
			}
			for left := hi - lo; left > 0; {
				for i := range ctxs {
					if done[i] {
						continue
					}
					v, err := db.FindNext([]byte(order[lo+i]), ctxs[i])
					if check(order[lo+i], cnt[i], v, err) {
						done[i] = true
						left--
					}
					cnt[i]++
				}
			}
		}
	default:
		for _, k := range order {
			ctx := shared
			if c.Ctx == 0 {
				ctx = cdb.NewContext()
			}
			db.FindStart(ctx)
			for i := 0; ; i++ {
				v, err := db.FindNext([]byte(k), ctx)
				if check(k, i, v, err) {
					break
				}
			}
		}
	}
	for _, k := range order { // Find / Data: first value
		v, err := db.Find([]byte(k), shared)
		if err != nil || !bytes.Equal(v, want[k][0]) {
			fail("find-first-mismatch", "Find(%s) = %s, %v; first written value %s", c16Short([]byte(k)), c16Short(v), err, c16Short(want[k][0]))
		}
		v, err = db.Data([]byte(k), shared)
		if err != nil || !bytes.Equal(v, want[k][0]) {
			fail("find-first-mismatch", "Data(%s) = %s, %v; first written value %s", c16Short([]byte(k)), c16Short(v), err, c16Short(want[k][0]))
		}
	}
	for _, a := range c.Absent {
		k := c16Blob(a)
		if _, ok := want[string(k)]; ok {
			continue
		}
		if _, probes, _ := f.Lookup(k, spooky.Hash32(k)); probes > 1 {
			s.absentInChain++
		}
		ctx := shared
		if c.Ctx == 0 {
			ctx = cdb.NewContext()
		}
		db.FindStart(ctx)
		if v, err := db.FindNext(k, ctx); err != io.EOF {
			fail("absent-key-found", "key %s was never written, lookup returned %s, %v", c16Short(k), c16Short(v), err)
		}
		if v, err := db.Data(k, ctx); err != io.EOF {
			fail("absent-key-found", "key %s was never written, Data returned %s, %v", c16Short(k), c16Short(v), err)
		}
	}
	// ForEachKeys: every record exactly once, with its hash
	var seen, exp []string
	err = db.ForEachKeys(func(h uint32, k, v []byte) {
		seen = append(seen, fmt.Sprintf("%08x %x %x", h, k, v))
	})
	if err != nil {
		fail("foreach-mismatch", "ForEachKeys: %v", err)
	}
	for _, p := range pairs {
		exp = append(exp, fmt.Sprintf("%08x %x %x", spooky.Hash32(p.Key), p.Key, p.Value))
	}
	sort.Strings(seen)
	sort.Strings(exp)
	if len(seen) != len(exp) {
		fail("foreach-mismatch", "ForEachKeys visited %d records, %d written", len(seen), len(exp))
	}
	for i := range seen {
		if seen[i] != exp[i] {
			fail("foreach-mismatch", "ForEachKeys multiset differs: got %.80s want %.80s", seen[i], exp[i])
		}
	}

	// (3) text form: Make(rendering) == file, Dump(file) == rendering, Make(Dump(file)) == file
	text := c16Render(pairs)
	var m1 c16Mem
	if err := cdb.Make(&m1, c16Reader(text, c.MakeVia)); err != nil {
		fail("make-error", "Make on the rendering of the pairs: %v", err)
	}
	if !bytes.Equal(m1.b, raw) {
		fail("make-differs-from-writer", "Make(rendering) differs from the writer's file: %s", c16FirstDiff(m1.b, raw))
	}
	whole := func() ([]byte, error) { // no short read can happen: the whole file sits in Dump's buffer
		var out bytes.Buffer
		err := cdb.Dump(&out, bufio.NewReaderSize(bytes.NewReader(raw), len(raw)+4096))
		return out.Bytes(), err
	}
	var dumped []byte
	if kit.IsKnown("C16", c16DumpKey) && (s.big || c.DumpVia > 0) {
		kit.Excluded(c16DumpKey)
		dumped, err = whole()
		if err != nil || !bytes.Equal(dumped, text) {
			fail("dump-mismatch", "Dump (whole file buffered): err %v, %s", err, c16FirstDiff(dumped, text))
		}
	} else {
		var out bytes.Buffer
		if c.DumpVia < 0 {
			fh, e := os.Open(path)
			if e != nil {
				t.Fatalf("infrastructure: %v", e)
			}
			err = cdb.Dump(&out, fh)
			fh.Close()
		} else {
			err = cdb.Dump(&out, c16Reader(raw, c.DumpVia))
		}
		dumped = out.Bytes()
		if err != nil || !bytes.Equal(dumped, text) {
			key := "dump-mismatch"
			if d2, e2 := whole(); e2 == nil && bytes.Equal(d2, text) {
				key = c16DumpKey // right when nothing is read in pieces, wrong otherwise
			}
			fail(key, "Dump of a %d-byte file with %d records (reader mode %d): err %v, output has %d lines instead of %d; %s",
				len(raw), len(pairs), c.DumpVia, err, bytes.Count(dumped, []byte("\n")), bytes.Count(text, []byte("\n")), c16FirstDiff(dumped, text))
		}
	}
	var m2 c16Mem
	if err := cdb.Make(&m2, bytes.NewReader(dumped)); err != nil {
		fail("dump-make-roundtrip", "Make(Dump(file)): %v", err)
	}
	if !bytes.Equal(m2.b, raw) {
		fail("dump-make-roundtrip", "Make(Dump(file)) differs from the file: %s", c16FirstDiff(m2.b, raw))
	}
	return s
}

// ---------------------------------------------------------------------------
// key pool: all 1- and 2-byte keys and all 3-byte keys over 0x20..0x7f, hashed
// once per process, bucketed by table (hash & 0xff).

type c16Pool struct {
	hash    []uint32
	byTable [256][]uint32 // key indexes, sorted by (hash, index)
	twins   [][2]uint32   // distinct keys with the same 32-bit hash
}

const c16PoolSize = 256 + 65536 + 96*96*96

func c16Key(idx uint32) []byte {
	switch {
	case idx < 256:
		return []byte{byte(idx)}
	case idx < 256+65536:
		idx -= 256
		return []byte{byte(idx >> 8), byte(idx)}
	default:
		idx -= 256 + 65536
		return []byte{0x20 + byte(idx/(96*96)), 0x20 + byte(idx/96%96), 0x20 + byte(idx%96)}
	}
}

var (
	c16PoolOnce sync.Once
	c16PoolVal  *c16Pool
)

func c16GetPool() *c16Pool {
	c16PoolOnce.Do(func() {
		p := &c16Pool{hash: make([]uint32, c16PoolSize)}
		for i := uint32(0); i < c16PoolSize; i++ {
			h := spooky.Hash32(c16Key(i))
			p.hash[i] = h
			p.byTable[h&0xff] = append(p.byTable[h&0xff], i)
		}
		for t := range p.byTable {
			b := p.byTable[t]
			sort.Slice(b, func(i, j int) bool {
				if p.hash[b[i]] != p.hash[b[j]] {
					return p.hash[b[i]] < p.hash[b[j]]
				}
				return b[i] < b[j]
			})
			for i := 1; i < len(b); i++ {
				if p.hash[b[i]] == p.hash[b[i-1]] {
					p.twins = append(p.twins, [2]uint32{b[i-1], b[i]})
				}
			}
		}
		for _, g := range c16Prefix {
			if h := spooky.Hash32(c16Blob(g[0])); h != spooky.Hash32(c16Blob(g[1])) || h != spooky.Hash32(c16Blob(g[2])) {
				panic("c16Prefix: constants do not collide")
			}
		}
		c16PoolVal = p
	})
	return c16PoolVal
}

// c16Prefix: keys whose 32-bit hash equals the hash of one of their proper
// prefixes (found by a 2^33-hash search, hard-coded, re-verified when the
// pool is built): base, then two extensions of the base.
var c16Prefix = [][3]string{
	{"61", "610e719c5214", "610c512b750b"},
	{"6b31", "6b310755d04925", "6b3107897b4328"},
}

// inSlot lists the pool keys of table tab whose start slot is `slot` when the
// table has nslots slots.
func (p *c16Pool) inSlot(tab int, nslots, slot uint32) []uint32 {
	var out []uint32
	for _, i := range p.byTable[tab] {
		if (p.hash[i]>>8)%nslots == slot {
			out = append(out, i)
		}
	}
	return out
}

// ---------------------------------------------------------------------------
// generators

var c16Alpha = []byte{'a', 'b', '\n', '+', '-', '>', ':', ',', 0, 0xff, '0', ' '}

func c16Tiny(t *rapid.T, label string, max int) []byte {
	return rapid.SliceOfN(rapid.SampledFrom(c16Alpha), 0, max).Draw(t, label)
}

func c16Value(t *rapid.T, seq int) string {
	switch rapid.IntRange(0, 3).Draw(t, "vkind") {
	case 0:
		return c16Hex([]byte(strconv.Itoa(seq)))
	case 1:
		return ""
	default:
		return c16Hex(c16Tiny(t, "val", 3))
	}
}

var c16Vias = []int{0, 0, 0, -1, -1, 1, 2, 3, 5, 7, 64, 4095, 4096, 4097}

func c16GenSmall(t *rapid.T) *c16Case {
	p := c16GetPool()
	c := &c16Case{}
	c.Shape = rapid.SampledFrom([]string{"tiny", "tiny", "tiny", "chain", "chain", "chain", "chain", "twins", "prefix-twins", "multi", "multi", "blob", "blob", "blob"}).Draw(t, "shape")
	c.Ctx = rapid.IntRange(0, 2).Draw(t, "ctx")
	c.DumpVia = rapid.SampledFrom(c16Vias).Draw(t, "dumpvia")
	c.MakeVia = rapid.SampledFrom([]int{0, 0, 0, 1, 2, 3, 7, 64, 4095, 4096, 4097}).Draw(t, "makevia")
	add := func(k []byte, v string) { c.Pairs = append(c.Pairs, [2]string{c16Hex(k), v}) }
	noise := func(tab int, max int) { // records that stay out of table tab
		for i, n := 0, rapid.IntRange(0, max).Draw(t, "noise"); i < n; i++ {
			other := (tab + 1 + rapid.IntRange(0, 254).Draw(t, "ntab")) % 256
			b := p.byTable[other]
			add(c16Key(b[rapid.IntRange(0, 40).Draw(t, "nkey")]), c16Value(t, i))
		}
	}
	switch c.Shape {
	case "tiny":
		n := rapid.IntRange(0, 50).Draw(t, "n")
		for i := 0; i < n; i++ {
			add(c16Tiny(t, "key", 2), c16Value(t, i))
		}
		for i := 0; i < 3; i++ {
			c.Absent = append(c.Absent, c16Hex(c16Tiny(t, "absent", 3)))
		}
	case "chain":
		// several keys of one table whose start slots coincide or are
		// adjacent, placed at the end of the table so that probing wraps
		tab := rapid.SampledFrom([]int{0, 1, 0x7f, 0xfe, 0xff}).Draw(t, "tab")
		counts := rapid.SliceOfN(rapid.IntRange(1, 4), 1, 8).Draw(t, "counts")
		n := 0
		for _, k := range counts {
			n += k
		}
		ns := uint32(2 * n)
		anchor := rapid.SampledFrom([]uint32{ns - 1, ns - 1, ns - 2, 0, ns / 2, uint32(rapid.IntRange(0, 2*n-1).Draw(t, "anyslot"))}).Draw(t, "anchor")
		seq := 0
		for _, k := range counts {
			slot := (anchor + rapid.SampledFrom([]uint32{0, 0, 0, 1, ns - 1, 2}).Draw(t, "off")) % ns
			cand := p.inSlot(tab, ns, slot)
			if len(cand) == 0 {
				cand = p.byTable[tab]
			}
			key := c16Key(cand[rapid.IntRange(0, len(cand)-1).Draw(t, "pick")])
			for j := 0; j < k; j++ {
				add(key, c16Value(t, seq))
				seq++
			}
		}
		// absent keys that hash into the occupied chain
		for i := 0; i < 4; i++ {
			slot := (anchor + uint32(i) + ns - 1) % ns
			if cand := p.inSlot(tab, ns, slot); len(cand) > 0 {
				c.Absent = append(c.Absent, c16Hex(c16Key(cand[rapid.IntRange(0, len(cand)-1).Draw(t, "apick")])))
			}
		}
		noise(tab, 6)
	case "twins":
		// two different keys with the same 32-bit hash
		tw := p.twins[rapid.IntRange(0, len(p.twins)-1).Draw(t, "twin")]
		tab := int(p.hash[tw[0]] & 0xff)
		which := rapid.IntRange(0, 2).Draw(t, "which") // 0: only first, 1: only second, 2: both
		seq := 0
		for rep, n := 0, rapid.IntRange(1, 3).Draw(t, "reps"); rep < n; rep++ {
			if which != 1 {
				add(c16Key(tw[0]), c16Value(t, seq))
				seq++
			}
			if which != 0 {
				add(c16Key(tw[1]), c16Value(t, seq))
				seq++
			}
		}
		c.Absent = append(c.Absent, c16Hex(c16Key(tw[0])), c16Hex(c16Key(tw[1])))
		for i, n := 0, rapid.IntRange(0, 3).Draw(t, "more"); i < n; i++ {
			b := p.byTable[tab]
			add(c16Key(b[rapid.IntRange(0, len(b)-1).Draw(t, "same-table")]), c16Value(t, seq))
			seq++
		}
		noise(tab, 4)
	case "prefix-twins":
		// a key and a longer key that starts with it and has the same 32-bit
		// hash; the shorter one may carry a value that continues like the
		// longer key, so only a full key comparison tells them apart
		g := c16Prefix[rapid.IntRange(0, len(c16Prefix)-1).Draw(t, "group")]
		short := c16Blob(g[0])
		long1, long2 := c16Blob(g[1]), c16Blob(g[2])
		if rapid.Bool().Draw(t, "swap") {
			long1, long2 = long2, long1
		}
		which := rapid.IntRange(0, 3).Draw(t, "which") // 0 long only, 1 short only, 2 both, 3 all three
		seq := 0
		for rep, n := 0, rapid.IntRange(1, 3).Draw(t, "reps"); rep < n; rep++ {
			if which != 1 {
				add(long1, c16Value(t, seq))
				seq++
			}
			if which != 0 {
				add(short, c16Hex(append(append([]byte(nil), long1[len(short):]...), byte('0'+seq))))
				seq++
			}
			if which == 3 {
				add(long2, c16Value(t, seq))
				seq++
			}
		}
		c.Absent = append(c.Absent, c16Hex(short), c16Hex(long1), c16Hex(long2), c16Hex(long1[:len(long1)-1]), c16Hex(append(append([]byte(nil), long1...), 0)))
		noise(int(spooky.Hash32(short)&0xff), 4)
	case "multi":
		// one key with many values; its start slot is chosen so that the
		// run of values wraps around the end of the table (or just not)
		tab := rapid.SampledFrom([]int{0, 3, 0xff}).Draw(t, "tab")
		m := rapid.OneOf(rapid.IntRange(1, 300), rapid.SampledFrom([]int{2, 3, 127, 128, 129, 255, 256, 257, 300})).Draw(t, "values")
		extra := rapid.IntRange(0, 3).Draw(t, "extra")
		ns := uint32(2 * (m + extra))
		back := uint32(rapid.IntRange(1, m+1).Draw(t, "back")) // start slot = ns-back: wraps iff back < m + ...
		if back > ns {
			back = ns
		}
		slot := ns - back
		pick := func(sl uint32, label string) []byte {
			for d := uint32(0); d < ns; d++ { // nearest populated start slot at or before sl
				if cand := p.inSlot(tab, ns, (sl+ns-d)%ns); len(cand) > 0 {
					return c16Key(cand[rapid.IntRange(0, len(cand)-1).Draw(t, label)])
				}
			}
			return c16Key(p.byTable[tab][0])
		}
		key := pick(slot, "pick")
		same := rapid.Bool().Draw(t, "equal-values")
		var recs [][2]string
		for i := 0; i < m; i++ {
			v := c16Hex([]byte(strconv.Itoa(i)))
			if same {
				v = "76"
			}
			recs = append(recs, [2]string{c16Hex(key), v})
		}
		for i := 0; i < extra; i++ {
			recs = append(recs, [2]string{c16Hex(pick((slot+uint32(rapid.IntRange(0, m).Draw(t, "xoff")))%ns, "xpick")), c16Hex([]byte{'x', byte('0' + i)})})
		}
		// the extra keys go to drawn positions of the sequence
		for i := m; i < len(recs); i++ {
			j := rapid.IntRange(0, i).Draw(t, "pos")
			r := recs[i]
			copy(recs[j+1:i+1], recs[j:i])
			recs[j] = r
		}
		c.Pairs = recs
		c.Absent = append(c.Absent, c16Hex(pick(slot, "apick")), c16Hex(pick((slot+1)%ns, "apick2")))
	case "blob":
		// lengths at hash-block (96/192) and I/O buffer (2048/4096/8192) boundaries
		klen := rapid.OneOf(
			rapid.SampledFrom([]int{0, 1, 2, 95, 96, 97, 191, 192, 193, 287, 288, 289, 384}),
			rapid.Map(rapid.IntRange(-9, 9), func(d int) int { return 2040 + d }),
			rapid.Map(rapid.IntRange(-9, 9), func(d int) int { return 4092 + d }),
		)
		vlen := rapid.OneOf(
			rapid.IntRange(0, 4),
			rapid.Map(rapid.IntRange(-12, 12), func(d int) int { return 2040 + d }),
			rapid.Map(rapid.IntRange(-12, 12), func(d int) int { return 4088 + d }),
			rapid.Map(rapid.IntRange(-12, 12), func(d int) int { return 8184 + d }),
			rapid.Map(rapid.IntRange(-12, 12), func(d int) int { return 12280 + d }),
		)
		n := rapid.IntRange(1, 6).Draw(t, "n")
		for i := 0; i < n; i++ {
			kl := klen.Draw(t, "klen")
			if kl >= 96 && kl < 192 && kit.IsKnown("C16", c16HashKey) {
				kit.Excluded(c16HashKey)
				kl += 96
			}
			ks := rapid.IntRange(0, 2).Draw(t, "kseed")
			c.Pairs = append(c.Pairs, [2]string{fmt.Sprintf("#%d:%d", kl, ks), fmt.Sprintf("#%d:%d", vlen.Draw(t, "vlen"), i)})
			c.Absent = append(c.Absent, fmt.Sprintf("#%d:%d", kl, ks+3), fmt.Sprintf("#%d:%d", kl+1, ks))
		}
	}
	if c.Shape != "multi" && c.Shape != "blob" && len(c.Pairs) > 1 && rapid.Bool().Draw(t, "shuffle") {
		c.Pairs = rapid.Permutation(c.Pairs).Draw(t, "order")
	}
	return c
}

// c16GenLarge: many records over a key space of comparable size, so that keys
// repeat, all 256 tables fill, chains form and wrap.
func c16GenLarge(t *rapid.T) *c16Case {
	c := &c16Case{Shape: "large"}
	maxN := kit.Pick(4000, 60000)
	n := rapid.OneOf(rapid.IntRange(51, maxN), rapid.IntRange(maxN/2, maxN)).Draw(t, "n")
	space := rapid.SampledFrom([]int{n / 8, n / 2, n, 4 * n, c16PoolSize - 100}).Draw(t, "keyspace")
	if space < 1 {
		space = 1
	}
	if space > c16PoolSize-100 {
		space = c16PoolSize - 100
	}
	base := rapid.IntRange(0, c16PoolSize-100-space).Draw(t, "base")
	c.Ctx = rapid.IntRange(0, 2).Draw(t, "ctx")
	c.DumpVia = rapid.SampledFrom([]int{0, -1, -1, 4095, 4097, 511}).Draw(t, "dumpvia")
	c.MakeVia = rapid.SampledFrom([]int{0, 0, 4095, 4097, 511}).Draw(t, "makevia")
	idx := rapid.SliceOfN(rapid.IntRange(0, space-1), n, n).Draw(t, "keys")
	vmode := rapid.IntRange(0, 2).Draw(t, "vmode")
	c.Pairs = make([][2]string, n)
	for i, k := range idx {
		v := ""
		switch vmode {
		case 0:
			v = c16Hex([]byte(strconv.Itoa(i)))
		case 1:
			v = c16Hex([]byte{byte(i), byte(i >> 8)}[:i%3])
		default:
			v = fmt.Sprintf("#%d:%d", i%23, i)
		}
		c.Pairs[i] = [2]string{c16Hex(c16Key(uint32(base + k))), v}
	}
	for i := 0; i < 60; i++ {
		c.Absent = append(c.Absent, c16Hex(c16Key(uint32(base+space+i))))
	}
	return c
}

func c16Cls(n int, edges ...int) string {
	lo := 0
	for _, e := range edges {
		if n <= e {
			if lo == e {
				return strconv.Itoa(e)
			}
			return fmt.Sprintf("%d-%d", lo, e)
		}
		lo = e + 1
	}
	return fmt.Sprintf("%d+", lo)
}

func c16Book(c *c16Case, s c16Stats) {
	kit.Class("shape-" + c.Shape)
	kit.Class("records-" + c16Cls(s.records, 0, 1, 8, 50, 1000, 10000))
	kit.Class("chain-" + c16Cls(s.maxChain, 0, 1, 3, 9, 99))
	kit.Class("values-per-key-" + c16Cls(s.maxVals, 0, 1, 3, 20, 100))
	if s.wrapped {
		kit.Class("probe-wrapped")
	}
	if s.big {
		kit.Class("file>4096")
	}
	if s.sameHash {
		kit.Class("two-keys-one-hash")
	}
	if s.absentInChain > 0 {
		kit.Class("absent-key-in-occupied-chain")
	}
	switch {
	case c.DumpVia < 0:
		kit.Class("dump-from-file")
	case c.DumpVia > 0:
		kit.Class("dump-chunked-reader")
	}
	if s.maxChain >= 2 || s.maxVals >= 2 || s.big {
		var b strings.Builder
		for _, p := range c.Pairs {
			b.WriteString(p[0])
			b.WriteByte('=')
			b.WriteString(p[1])
			b.WriteByte(';')
		}
		kit.NonTrivial(b.String())
	}
	if len(c.Pairs) <= 12 {
		kit.Sample(c)
	} else {
		kit.Sample(map[string]interface{}{"shape": c.Shape, "records": s.records, "distinct_keys": s.distinct, "max_chain": s.maxChain, "wrapped": s.wrapped, "first_pairs": c.Pairs[:4]})
	}
}

// c16KnownCase is the smallest realistic reproduction of the Dump defect: the
// second record's length words straddle file offset 4096 (2048 header + 8 +
// 2037 = 4093), read from the file itself.
func c16KnownCase() *c16Case {
	return &c16Case{Shape: "known", Pairs: [][2]string{{"", "#2037:1"}, {"61", "62"}}, DumpVia: -1}
}

func TestC16(t *testing.T) {
	dir, err := os.MkdirTemp(kit.OutDir(), "c16-")
	if err != nil {
		t.Fatalf("infrastructure: %v", err)
	}
	c16Dir = dir
	defer os.RemoveAll(dir)
	if f := kit.ReplayFile(); f != "" {
		var c c16Case
		kit.LoadReplay(t, f, &c)
		kit.Case(&c)
		c16Run(t, &c)
		kit.Eval()
		return
	}
	if kit.IsKnown("C16", c16DumpKey) && kit.Shard() == 0 {
		// dedicated reproduction of the listed finding (nothing else is checked here)
		c := c16KnownCase()
		pairs := []kit.KV{{Key: c16Blob(c.Pairs[0][0]), Value: c16Blob(c.Pairs[0][1])}, {Key: c16Blob(c.Pairs[1][0]), Value: c16Blob(c.Pairs[1][1])}}
		var file c16Mem
		var out bytes.Buffer
		if err := cdb.Make(&file, bytes.NewReader(c16Render(pairs))); err != nil {
			t.Fatalf("known case: Make: %v", err)
		}
		err := cdb.Dump(&out, bytes.NewReader(file.b))
		if err != nil || !bytes.Equal(out.Bytes(), c16Render(pairs)) {
			kit.KnownSeen("C16", c16DumpKey)
		} else {
			kit.Note("known finding %s no longer reproduces: remove it from known_findings.json", c16DumpKey)
		}
	}
	if kit.IsKnown("C16", c16HashKey) && kit.Shard() == 0 {
		// dedicated reproduction: a 96-byte key is written and cannot be found
		c := &c16Case{Shape: "known", Pairs: [][2]string{{"#96:0", "76"}}}
		path := filepath.Join(dir, "k.cdb")
		w, err := cdb.NewWriter(path)
		if err == nil {
			err = w.Put(c16Blob(c.Pairs[0][0]), c16Blob(c.Pairs[0][1]))
		}
		if err == nil {
			err = w.Close()
		}
		if err != nil {
			t.Fatalf("known case: writer: %v", err)
		}
		db, err := cdb.Open(path)
		if err != nil {
			t.Fatalf("known case: Open: %v", err)
		}
		if _, err := db.Find(c16Blob(c.Pairs[0][0]), cdb.NewContext()); err == io.EOF {
			kit.KnownSeen("C16", c16HashKey)
		} else {
			kit.Note("known finding %s no longer reproduces: remove it from known_findings.json", c16HashKey)
		}
		db.Close()
		os.Remove(path)
	}
	kit.SetRapid(kit.N(48000, 800000))
	rapid.Check(t, kit.Prop("C16", func(t *rapid.T) {
		c := c16GenSmall(t)
		kit.Case(c)
		c16Book(c, c16Run(t, c))
	}))
	kit.SetRapid(kit.N(480, 960))
	rapid.Check(t, kit.Prop("C16", func(t *rapid.T) {
		c := c16GenLarge(t)
		kit.Case(c)
		c16Book(c, c16Run(t, c))
	}))
}
