package props

import (
	"fmt"
	"testing"

	"pgregory.net/rapid"

	"verif/kit"
)

// C14: serving and reloading concurrently is free of data races, crashes
// and deadlocks (run under the Go race detector).

func genStressCfg(t *rapid.T, semantic bool, millis int) stressCfg {
	cfg := stressCfg{Semantic: semantic, Millis: millis}
	cfg.Backend = rapid.SampledFrom(kit.AllBackends).Draw(t, "backend").String()
	cfg.Workers = rapid.SampledFrom([]int{2, 3, 4, 8, 16}).Draw(t, "workers")
	cfg.Cache = rapid.Bool().Draw(t, "cache")
	nk := rapid.IntRange(1, 4).Draw(t, "nkinds")
	for i := 0; i < nk; i++ {
		cfg.Reloads = append(cfg.Reloads, rapid.SampledFrom([]string{"partial", "partial", "full-ok", "full-ok", "missing", "nokey", "garbage"}).Draw(t, "kind"))
	}
	if !semantic && rapid.Bool().Draw(t, "with-timeouts") {
		// (only without the generation invariants: a timed-out RocksDB catch-up that still
		// takes effect is the listed C05 finding)
		cfg.Reloads = append(cfg.Reloads, "partial-timeout")
	}
	good := false
	for _, k := range cfg.Reloads {
		if k == "partial" || k == "full-ok" || k == "partial-timeout" {
			good = true
		}
	}
	if !good {
		cfg.Reloads = append(cfg.Reloads, "partial")
	}
	nw := rapid.IntRange(1, 4).Draw(t, "nqlists")
	for i := 0; i < nw; i++ {
		cfg.Queries = append(cfg.Queries, rapid.SliceOfN(rapid.IntRange(0, len(kit.StampQueries)-1), 1, 8).Draw(t, "qlist"))
		cfg.ECS = append(cfg.ECS, rapid.Bool().Draw(t, "ecs"))
	}
	return cfg
}

func TestC14(t *testing.T) {
	if f := kit.ReplayFile(); f != "" {
		var c stressCfg
		kit.LoadReplay(t, f, &c)
		for i := 0; i < 5; i++ {
			stressRun(t, "C14", c)
			kit.Eval()
		}
		return
	}
	millis := kit.Pick(3000, 12000)
	kit.SetRapid(kit.N(16, 200))
	rapid.Check(t, kit.Prop("C14", func(t *rapid.T) {
		cfg := genStressCfg(t, false, millis)
		kit.Case(cfg)
		res := stressRun(t, "C14", cfg)
		kit.ClassN("queries", res.Queries)
		kit.ClassN("reloads", res.Reloads)
		kit.ClassN("queries-overlapping-a-reload", res.Overlapped)
		kit.Class("backend:" + cfg.Backend)
		if res.Overlapped >= 10 {
			kit.NonTrivial(fmt.Sprintf("%s|%d|%v|%v", cfg.Backend, cfg.Workers, cfg.Reloads, cfg.Cache))
		}
		kit.SampleForce(map[string]interface{}{"config": cfg, "queries": res.Queries, "reloads": res.Reloads, "overlapped": res.Overlapped})
	}))
}
