package kit

import (
	"errors"
	"fmt"
	"net"
	"strings"
	"sync"
	"time"

	"github.com/facebookincubator/dns/dnsrocks/db"
)

// Instrumented pure-Go storage backend (db.DBI) for C06: every backend has an
// id and logs open / use / close events; Reload is scripted by the path string.

// FakeWorld owns the event log of one case.
type FakeWorld struct {
	mu         sync.Mutex
	Backends   []*FakeBackend
	Events     []string
	Violations []string
	gates      map[string]chan struct{}
	VKey       []byte
}

// FakeBackend is one storage backend.
type FakeBackend struct {
	ID     int
	w      *FakeWorld
	closed int
	hasKey bool
	uses   int
}

type fakeCtx struct{}

func (fakeCtx) Reset() {}

// NewFakeWorld creates a world with one initial backend (id 0).
func NewFakeWorld() (*FakeWorld, *FakeBackend) {
	w := &FakeWorld{gates: map[string]chan struct{}{}, VKey: []byte("vkey")}
	return w, w.newBackend(true, "initial")
}

func (w *FakeWorld) newBackend(hasKey bool, why string) *FakeBackend {
	w.mu.Lock()
	defer w.mu.Unlock()
	b := &FakeBackend{ID: len(w.Backends), w: w, hasKey: hasKey}
	w.Backends = append(w.Backends, b)
	w.Events = append(w.Events, fmt.Sprintf("open b%d (%s)", b.ID, why))
	return b
}

func (b *FakeBackend) event(what string) {
	b.w.mu.Lock()
	defer b.w.mu.Unlock()
	b.w.Events = append(b.w.Events, fmt.Sprintf("%s b%d", what, b.ID))
	if b.closed > 0 && what != "close" {
		b.w.Violations = append(b.w.Violations, fmt.Sprintf("use-after-close: %s on b%d", what, b.ID))
	}
	if what == "close" {
		b.closed++
		if b.closed > 1 {
			b.w.Violations = append(b.w.Violations, fmt.Sprintf("double-close: b%d closed %d times", b.ID, b.closed))
		}
	} else {
		b.uses++
	}
}

// Closed reports how often Close was called.
func (b *FakeBackend) Closed() int {
	b.w.mu.Lock()
	defer b.w.mu.Unlock()
	return b.closed
}

// NewContext implements db.DBI.
func (b *FakeBackend) NewContext() db.Context { b.event("newcontext"); return fakeCtx{} }

// FreeContext implements db.DBI.
func (b *FakeBackend) FreeContext(db.Context) { b.event("freecontext") }

// Find implements db.DBI.
func (b *FakeBackend) Find(key []byte, c db.Context) ([]byte, error) {
	b.event("find")
	return nil, errors.New("not found")
}

// fakeRows is a tiny zone every fake backend serves, so that real queries get
// a cacheable answer: example.com SOA + NS, www.example.com A.
var fakeRows = func() map[string][][]byte {
	head := func(t uint16) []byte {
		return append([]byte{byte(t >> 8), byte(t), '='}, 0, 0, 0, 60, 0, 0, 0, 0, 0, 0, 0, 0)
	}
	soa := append(head(6), NameWire("ns.example.com")...)
	soa = append(soa, NameWire("hostmaster.example.com")...)
	soa = append(soa, 0, 0, 0, 1, 0, 0, 0x1c, 0x20, 0, 0, 7, 8, 0, 9, 0x3a, 0x80, 0, 0, 0, 60)
	ns := append(head(2), NameWire("ns.example.com")...)
	a := append(head(1), 0, 0, 0, 1, 192, 0, 2, 1)
	return map[string][][]byte{
		"\x00\x00" + string(NameWire("example.com")):     {soa, ns},
		"\x00\x00" + string(NameWire("www.example.com")): {a},
	}
}()

// ForEach implements db.DBI.
func (b *FakeBackend) ForEach(key []byte, f func(value []byte) error, c db.Context) error {
	b.event("foreach")
	b.w.mu.Lock()
	has := b.hasKey
	b.w.mu.Unlock()
	if string(key) == string(b.w.VKey) && has {
		return f([]byte("v"))
	}
	for _, row := range fakeRows[string(key)] {
		if err := f(append([]byte(nil), row...)); err != nil {
			return err
		}
	}
	return nil
}

// FindMap implements db.DBI.
func (b *FakeBackend) FindMap(domain, mtype []byte, c db.Context) ([]byte, error) {
	b.event("findmap")
	return nil, nil
}

// GetLocationByMap implements db.DBI.
func (b *FakeBackend) GetLocationByMap(ipnet *net.IPNet, mapID []byte, c db.Context) ([]byte, uint8, error) {
	b.event("getlocation")
	return nil, 0, nil
}

// Close implements db.DBI.
func (b *FakeBackend) Close() error { b.event("close"); return nil }

// GetStats implements db.DBI.
func (b *FakeBackend) GetStats() map[string]int64 { b.event("getstats"); return map[string]int64{} }

// ClosestKeyFinder implements db.DBI.
func (b *FakeBackend) ClosestKeyFinder() db.ClosestKeyFinder { return nil }

// Gate returns (creating it) the gate a "block-*" reload path waits on.
func (w *FakeWorld) Gate(path string) chan struct{} {
	w.mu.Lock()
	defer w.mu.Unlock()
	g, ok := w.gates[path]
	if !ok {
		g = make(chan struct{})
		w.gates[path] = g
	}
	return g
}

// Reload implements db.DBI; the path scripts the outcome:
//
//	new-ok#n  new-nokey#n  same  same-losekey  err#n  block-new-ok#n  block-err#n
func (b *FakeBackend) Reload(path string) (db.DBI, error) {
	b.event("reload(" + path + ")")
	kind := path
	if i := strings.IndexByte(path, '#'); i >= 0 {
		kind = path[:i]
	}
	if strings.HasPrefix(kind, "block-") {
		<-b.w.Gate(path)
		kind = kind[len("block-"):]
		// a slow reload (e.g. a long catch-up) keeps working on the backend it
		// was called on until it returns
		b.event("reload-continues(" + path + ")")
	}
	defer func() {
		b.w.mu.Lock()
		b.w.Events = append(b.w.Events, "reload-returned("+path+")")
		b.w.mu.Unlock()
	}()
	switch kind {
	case "new-ok":
		return b.w.newBackend(true, path), nil
	case "new-nokey":
		return b.w.newBackend(false, path), nil
	case "same":
		return b, nil
	case "same-losekey":
		b.w.mu.Lock()
		b.hasKey = false
		b.w.mu.Unlock()
		return b, nil
	default:
		return nil, fmt.Errorf("scripted open error for %s", path)
	}
}

// CreatedBy returns the backend a reload of path created (nil if none yet).
func (w *FakeWorld) CreatedBy(path string) *FakeBackend {
	w.mu.Lock()
	defer w.mu.Unlock()
	for i, e := range w.Events {
		if e == fmt.Sprintf("open b%d (%s)", i, path) {
			continue
		}
		_ = e
	}
	for _, b := range w.Backends {
		for _, e := range w.Events {
			if e == fmt.Sprintf("open b%d (%s)", b.ID, path) {
				return b
			}
		}
	}
	return nil
}

// Returned reports whether the scripted reload of path has returned.
func (w *FakeWorld) Returned(path string) bool {
	w.mu.Lock()
	defer w.mu.Unlock()
	for _, e := range w.Events {
		if e == "reload-returned("+path+")" {
			return true
		}
	}
	return false
}

// Snapshot returns copies of the log and the violations.
func (w *FakeWorld) Snapshot() (events, violations []string) {
	w.mu.Lock()
	defer w.mu.Unlock()
	return append([]string(nil), w.Events...), append([]string(nil), w.Violations...)
}

// WaitFor polls cond for up to d.
func WaitFor(d time.Duration, cond func() bool) bool {
	deadline := time.Now().Add(d)
	for {
		if cond() {
			return true
		}
		if time.Now().After(deadline) {
			return false
		}
		time.Sleep(200 * time.Microsecond)
	}
}
