package props

import (
	"bytes"
	"fmt"
	"os"
	"path/filepath"
	"sort"
	"strings"
	"testing"
	"time"

	"github.com/facebookincubator/dns/dnsrocks/dnsdata"
	"github.com/facebookincubator/dns/dnsrocks/dnsdata/rdb"
	"pgregory.net/rapid"

	"verif/kit"
)

// C08: applying a line diff A->B to the RocksDB compiled from the
// preprocessed file A gives the database of a fresh compile of B (key ->
// multiset of values), for both key layouts, any order of diff lines and
// chains of diffs; a diff that cannot be applied fails as a whole and leaves
// the database byte-for-byte as it was.

// c08Step is one ApplyDiff call.
type c08Step struct {
	Diff    []string `json:"diff"`               // the diff file, line by line, in the order written
	Fail    string   `json:"fail,omitempty"`     // "" = must succeed; otherwise the kind of defect planted: must return an error and change nothing
	To      int      `json:"to"`                 // index into P of the database expected afterwards
	NoNL    bool     `json:"no_nl,omitempty"`    // the last line is not newline-terminated
	ViaFile bool     `json:"via_file,omitempty"` // rdb.ApplyDiff(file, dir) with serial = mtime instead of Updater.ApplyDiff(reader, serial)
	Pad     int      `json:"pad,omitempty"`      // comment lines written after the first line (long diffs span several scanner buffers)
	Ops     string   `json:"ops,omitempty"`      // informational: how the target file was derived
}

// c08KBare is the shape key of a listed finding: a diff longer than about
// 2 KiB whose last line is a lone operation character without a newline.
const c08KBare = "applydiff-panic:bare-op"

const c08PadLine = "# padding padding padding padding 012345"

// c08Case is self-contained: P[0] is compiled, then the steps are applied to
// that one directory.
type c08Case struct {
	V2     bool      `json:"v2"`
	Serial uint32    `json:"serial"`
	Raw    []string  `json:"raw,omitempty"` // the files before preprocessing (informational)
	P      []string  `json:"p"`             // preprocessed files
	Steps  []c08Step `json:"steps"`
}

func c08Backend(v2 bool) kit.Backend {
	if v2 {
		return kit.RDBv2
	}
	return kit.RDBv1
}

// c08Preprocess runs the repository's preprocessor the way
// cmd/dnsrocks-preproc sets it up.  The '!' lines come out in scheduler
// order (one goroutine per map); they are sorted to make the text a function
// of the input.
func c08Preprocess(raw []byte, serial uint32) (string, error) {
	codec := new(dnsdata.Codec)
	codec.Serial = serial
	codec.Acc.Ranger.Enable()
	codec.Acc.NoPrefixSets = true
	codec.NoRnetOutput = true
	var out bytes.Buffer
	if err := codec.Preprocess(bytes.NewReader(raw), &out); err != nil {
		return "", err
	}
	var plain, bang []string
	for _, l := range c08Lines(out.String()) {
		if strings.HasPrefix(l, "!") {
			bang = append(bang, l)
		} else {
			plain = append(plain, l)
		}
	}
	sort.Strings(bang)
	all := append(plain, bang...)
	if len(all) == 0 {
		return "", nil
	}
	return strings.Join(all, "\n") + "\n", nil
}

func c08Lines(text string) []string {
	var out []string
	for _, l := range strings.Split(text, "\n") {
		if l != "" {
			out = append(out, l)
		}
	}
	return out
}

// c08Diff is the multiset difference of the lines of a and b as sorted
// "-line" / "+line" entries.
func c08Diff(a, b string) []string {
	cnt := map[string]int{}
	for _, l := range c08Lines(a) {
		cnt[l]--
	}
	for _, l := range c08Lines(b) {
		cnt[l]++
	}
	keys := make([]string, 0, len(cnt))
	for l := range cnt {
		keys = append(keys, l)
	}
	sort.Strings(keys)
	var out []string
	for _, l := range keys {
		n := cnt[l]
		for ; n < 0; n++ {
			out = append(out, "-"+l)
		}
		for ; n > 0; n-- {
			out = append(out, "+"+l)
		}
	}
	return out
}

// ---------------------------------------------------------------- executor

type c08StepInfo struct {
	plusMinusOneKey bool // some key lost a value and gained another
	bang            bool // the diff has range-point lines
	oneOfEqual      bool // a value stored several times under a key lost some but not all copies
	keyGone         bool
	keyNew          bool
	nlines          int
}

func (i c08StepInfo) nonTrivial() bool { return i.plusMinusOneKey || i.bang || i.oneOfEqual }

func (i c08StepInfo) bits() string {
	b := []byte("-----")
	if i.plusMinusOneKey {
		b[0] = 'P'
	}
	if i.bang {
		b[1] = '!'
	}
	if i.oneOfEqual {
		b[2] = 'E'
	}
	if i.keyGone {
		b[3] = 'G'
	}
	if i.keyNew {
		b[4] = 'N'
	}
	return string(b)
}

func c08Count(chunks []string) map[string]int {
	m := map[string]int{}
	for _, c := range chunks {
		m[c]++
	}
	return m
}

func c08Classify(before, after map[string][]string, diff []string) c08StepInfo {
	var info c08StepInfo
	info.nlines = len(diff)
	for _, l := range diff {
		if strings.HasPrefix(l, "+!") || strings.HasPrefix(l, "-!") {
			info.bang = true
		}
	}
	for k, bv := range before {
		av, ok := after[k]
		if !ok {
			info.keyGone = true
			continue
		}
		bc, ac := c08Count(bv), c08Count(av)
		lost, gained := false, false
		for c, n := range bc {
			if ac[c] < n {
				lost = true
				if n >= 2 && ac[c] >= 1 {
					info.oneOfEqual = true
				}
			}
		}
		for c, n := range ac {
			if bc[c] < n {
				gained = true
			}
		}
		if lost && gained {
			info.plusMinusOneKey = true
		}
	}
	for k := range after {
		if _, ok := before[k]; !ok {
			info.keyNew = true
		}
	}
	return info
}

func c08SameChunks(a, b map[string][]string) string {
	var keys []string
	for k := range a {
		keys = append(keys, k)
	}
	for k := range b {
		if _, ok := a[k]; !ok {
			keys = append(keys, k)
		}
	}
	sort.Strings(keys)
	var msgs []string
	for _, k := range keys {
		av, aok := a[k]
		bv, bok := b[k]
		same := aok && bok && len(av) == len(bv)
		if same {
			for i := range av {
				if av[i] != bv[i] {
					same = false
					break
				}
			}
		}
		if same {
			continue
		}
		if len(msgs) < 3 {
			switch {
			case !aok:
				msgs = append(msgs, fmt.Sprintf("key %q missing after the diff (fresh compile has %d value(s) %q)", k, len(bv), bv))
			case !bok:
				msgs = append(msgs, fmt.Sprintf("key %q present after the diff with %d value(s) %q, absent from the fresh compile", k, len(av), av))
			default:
				msgs = append(msgs, fmt.Sprintf("key %q: after the diff %d value(s) %q, fresh compile %d value(s) %q", k, len(av), av, len(bv), bv))
			}
		} else {
			msgs = append(msgs, "...")
			break
		}
	}
	return strings.Join(msgs, "; ")
}

func c08SameRaw(a, b map[string][]byte) string {
	for k, av := range a {
		bv, ok := b[k]
		if !ok {
			return fmt.Sprintf("key %q disappeared", k)
		}
		if !bytes.Equal(av, bv) {
			return fmt.Sprintf("key %q changed from %q to %q", k, av, bv)
		}
	}
	for k, bv := range b {
		if _, ok := a[k]; !ok {
			return fmt.Sprintf("key %q appeared with value %q", k, bv)
		}
	}
	return ""
}

func c08DiffText(s c08Step) string {
	lines := s.Diff
	if s.Pad > 0 {
		lines = nil
		for i, l := range s.Diff {
			lines = append(lines, l)
			if i == 0 {
				for j := 0; j < s.Pad; j++ {
					lines = append(lines, c08PadLine)
				}
			}
		}
		if len(s.Diff) == 0 {
			for j := 0; j < s.Pad; j++ {
				lines = append(lines, c08PadLine)
			}
		}
	}
	text := strings.Join(lines, "\n")
	if len(lines) > 0 && !s.NoNL {
		text += "\n"
	}
	return text
}

func c08Show(s c08Step) string {
	v := s
	v.Pad = 0
	t := c08DiffText(v)
	if s.Pad > 0 {
		t += fmt.Sprintf("\n(+ %d comment lines after the first line)", s.Pad)
	}
	return t
}

// c08Apply drives ApplyDiff the two ways cmd/dnsrocks-applyrdb does.  herr
// is trouble with opening/closing, aerr is ApplyDiff's verdict, panicked is
// the text of a panic inside ApplyDiff (the database is closed nevertheless).
func c08Apply(dbdir, scratch string, s c08Step, serial uint32) (herr, aerr error, panicked string) {
	text := c08DiffText(s)
	guarded := func(f func() error) (e error) {
		defer func() {
			if r := recover(); r != nil {
				panicked = fmt.Sprint(r)
			}
		}()
		return f()
	}
	if s.ViaFile {
		p := filepath.Join(scratch, "diff.txt")
		if err := os.WriteFile(p, []byte(text), 0o644); err != nil {
			return err, nil, ""
		}
		mt := time.Unix(int64(serial), 0)
		if err := os.Chtimes(p, mt, mt); err != nil {
			return err, nil, ""
		}
		aerr = guarded(func() error { return rdb.ApplyDiff(p, dbdir) }) // closes the database through its defer
		return nil, aerr, panicked
	}
	u, err := rdb.NewUpdater(dbdir)
	if err != nil {
		return err, nil, ""
	}
	aerr = guarded(func() error { return u.ApplyDiff(strings.NewReader(text), serial) })
	if cerr := u.Close(); cerr != nil {
		return cerr, aerr, panicked
	}
	return nil, aerr, panicked
}

type c08Verdict struct {
	key, msg string
}

// c08Exec executes a case; it returns per-step information for the
// bookkeeping and, on violation, the shape key and message.
func c08Exec(c *c08Case) (infos []c08StepInfo, verdict *c08Verdict) {
	scratch := kit.Scratch("c08")
	defer os.RemoveAll(scratch)
	be := c08Backend(c.V2)
	defer func() {
		if r := recover(); r != nil {
			v, ok := r.(*c08Verdict)
			if !ok {
				panic(r)
			}
			verdict = v
		}
	}()
	fail := func(key, format string, a ...interface{}) {
		panic(&c08Verdict{key, fmt.Sprintf(format, a...)})
	}
	layout := "v1"
	if c.V2 {
		layout = "v2"
	}

	fresh := map[int]map[string][]string{}
	freshOf := func(i int) map[string][]string {
		if d, ok := fresh[i]; ok {
			return d
		}
		fd := filepath.Join(scratch, fmt.Sprintf("fresh-%d", i))
		if err := os.MkdirAll(fd, 0o755); err != nil {
			panic(err)
		}
		p, err := kit.Compile([]byte(c.P[i]), c.Serial, fd, be, kit.DefaultCompile)
		if err != nil {
			fail("compile-error", "fresh compile of file %d failed: %v", i, err)
		}
		d, err := kit.DumpRDBc08(p)
		if err != nil {
			fail("dump-error", "dump of the fresh compile of file %d: %v", i, err)
		}
		os.RemoveAll(fd)
		fresh[i] = d
		return d
	}

	live := filepath.Join(scratch, "live")
	if err := os.MkdirAll(live, 0o755); err != nil {
		panic(err)
	}
	dbdir, err := kit.Compile([]byte(c.P[0]), c.Serial, live, be, kit.DefaultCompile)
	if err != nil {
		fail("compile-error", "compile of file 0 failed: %v", err)
	}
	curRaw, err := kit.DumpRDBRawC08(dbdir)
	if err != nil {
		fail("dump-error", "dump after the initial compile: %v", err)
	}
	curChunks, err := kit.ChunksOfRawC08(curRaw)
	if err != nil {
		fail("dump-error", "dump after the initial compile: %v", err)
	}

	infos = make([]c08StepInfo, len(c.Steps))
	for si, s := range c.Steps {
		herr, aerr, panicked := c08Apply(dbdir, scratch, s, c.Serial)
		if panicked != "" {
			what := s.Fail
			if what == "" {
				what = "valid"
			}
			fail("applydiff-panic:"+what, "step %d (%s): ApplyDiff panicked: %s; diff (%d bytes):\n%s", si, layout, panicked, len(c08DiffText(s)), c08Show(s))
		}
		if herr != nil {
			fail("updater-open-close-error", "step %d (%s): opening/closing the database for update failed: %v", si, layout, herr)
		}
		raw, err := kit.DumpRDBRawC08(dbdir)
		if err != nil {
			fail("dump-error", "step %d: dump after ApplyDiff: %v", si, err)
		}
		if s.Fail != "" {
			if aerr == nil {
				fail("bad-diff-accepted:"+s.Fail, "step %d (%s): the diff holds a %s line but ApplyDiff returned no error; diff:\n%s", si, layout, s.Fail, c08Show(s))
			}
			if d := c08SameRaw(curRaw, raw); d != "" {
				fail("failed-diff-changed-db:"+s.Fail, "step %d (%s): ApplyDiff failed (%v) but the database changed: %s; diff:\n%s", si, layout, aerr, d, c08Show(s))
			}
			infos[si] = c08StepInfo{nlines: len(s.Diff)}
			continue
		}
		if aerr != nil {
			fail("valid-diff-rejected", "step %d (%s): ApplyDiff of a valid diff failed: %v; diff:\n%s", si, layout, aerr, c08Show(s))
		}
		chunks, err := kit.ChunksOfRawC08(raw)
		if err != nil {
			fail("value-codec-broken", "step %d (%s): stored value list does not decode after ApplyDiff: %v", si, layout, err)
		}
		want := freshOf(s.To)
		if d := c08SameChunks(chunks, want); d != "" {
			fail("db-differs-from-fresh-compile", "step %d (%s) -> file %d: %s; diff:\n%s", si, layout, s.To, d, c08Show(s))
		}
		infos[si] = c08Classify(curChunks, chunks, s.Diff)
		curRaw, curChunks = raw, chunks
	}
	return infos, nil
}

func c08Run(t kit.Fataler, c *c08Case) []c08StepInfo {
	infos, v := c08Exec(c)
	if v != nil {
		kit.Fail(t, "C08", v.key, c, "%s", v.msg)
	}
	return infos
}

// --------------------------------------------------------------- generator

var (
	c08MarkerIPs = []string{"198.18.0.1", "198.18.0.2"}
	c08PlainIPs  = []string{"192.0.2.1", "192.0.2.2", "10.1.2.3", "2001:db8::10", "::1"}
	c08LocsRR    = []string{"", "l1", "l2", "\x00,"}
	c08LocsNet   = []string{"l1", "l2", "\x00,"}
	c08MapIDs    = []string{"", "m1", "m2", "\x00\x07"}
	c08Subnets   = []string{"10.0.0.0/8", "10.0.0.0/16", "10.0.0.0/24", "10.0.1.0/24", "10.0.0.1", "10.0.0.1/32", "10.0.0.2/31",
		"192.0.2.0/24", "192.0.2.7", "0.0.0.0/0", "::/0", "2001:db8::/32", "2001:db8::/48", "2001:db8:1::/48", "2001:db8::1", "2001:db8::2/127", ""}
	c08Targets = []string{"t.example.net", "a.net", "cdn.ext.net"}
	c08None    = [5]int64{-1, -1, -1, -1, -1}
)

const c08FreshTTL = 777777 // a TTL no generated line carries

func c08IsRR(k byte) bool { return strings.IndexByte("Z.&+=@SC^':BH", k) >= 0 }

func c08Owners(lines []kit.Line) []string {
	set := map[string]bool{}
	for _, l := range lines {
		if c08IsRR(l.K) && l.Owner != "" {
			set[kit.CanonName(l.Owner)] = true
		}
	}
	out := make([]string, 0, len(set))
	for o := range set {
		out = append(out, o)
	}
	sort.Strings(out)
	if len(out) == 0 {
		out = []string{"a.com"}
	}
	if len(out) > 4 {
		out = out[:4]
	}
	return out
}

func c08Pick(t *rapid.T, tag string, lines []kit.Line, ok func(l *kit.Line) bool) int {
	var idx []int
	for i := range lines {
		if ok(&lines[i]) {
			idx = append(idx, i)
		}
	}
	if len(idx) == 0 {
		return -1
	}
	return idx[rapid.IntRange(0, len(idx)-1).Draw(t, tag)]
}

func c08Other(t *rapid.T, tag string, pool []string, cur string) string {
	var cand []string
	for _, p := range pool {
		if p != cur {
			cand = append(cand, p)
		}
	}
	return rapid.SampledFrom(cand).Draw(t, tag)
}

func c08Marker(t *rapid.T, tag string, lines []kit.Line) kit.Line {
	own := rapid.SampledFrom(c08Owners(lines)).Draw(t, tag+"-own")
	// an omitted TTL and 86400 declare the same record with different text
	ttl := int64(rapid.SampledFrom([]int{300, -1, 86400}).Draw(t, tag+"-ttl"))
	return kit.Line{K: '+', Owner: own, IP: rapid.SampledFrom(c08MarkerIPs).Draw(t, tag+"-ip"), TTL: ttl,
		Loc: rapid.SampledFrom([]string{"", "l1"}).Draw(t, tag+"-loc"), N: c08None}
}

// c08Mutate derives the next file from the current one.
func c08Mutate(t *rapid.T, tag string, cur []kit.Line, extra []kit.Line) ([]kit.Line, string) {
	out := append([]kit.Line(nil), cur...)
	nops := rapid.IntRange(1, 6).Draw(t, tag+"-nops")
	var ops []byte
	insert := func(l kit.Line) {
		pos := rapid.IntRange(0, len(out)).Draw(t, tag+"-pos")
		out = append(out, kit.Line{})
		copy(out[pos+1:], out[pos:])
		out[pos] = l
	}
	remove := func(i int) { out = append(out[:i:i], out[i+1:]...) }
	any := func(*kit.Line) bool { return true }
	for n := 0; n < nops; n++ {
		op := rapid.SampledFrom([]byte("rrrdddcccccssmmmmxxnnnNNlllMzT")).Draw(t, tag+"-op")
		done := true
		switch op {
		case 'r': // remove a line
			if i := c08Pick(t, tag+"-ri", out, any); i >= 0 {
				remove(i)
			} else {
				done = false
			}
		case 'd': // duplicate a line, possibly written differently
			i := c08Pick(t, tag+"-di", out, any)
			if i < 0 {
				done = false
				break
			}
			l := out[i]
			switch rapid.IntRange(0, 3).Draw(t, tag+"-dform") {
			case 1:
				l.Colon = !l.Colon
				if l.Colon && !l.CanColon() {
					l.Colon = false
				}
			case 2:
				l.Owner = strings.ToUpper(l.Owner)
			}
			insert(l)
		case 'c': // change one field
			i := c08Pick(t, tag+"-ci", out, any)
			if i < 0 {
				done = false
				break
			}
			l := &out[i]
			switch {
			case l.K == '%':
				switch rapid.IntRange(0, 2).Draw(t, tag+"-cnet") {
				case 0:
					l.CIDR = c08Other(t, tag+"-cidr", c08Subnets, l.CIDR)
				case 1:
					l.Loc = c08Other(t, tag+"-nloc", c08LocsNet, l.Loc)
				default:
					l.MapID = c08Other(t, tag+"-nmap", c08MapIDs, l.MapID)
				}
			case l.K == 'M' || l.K == '8':
				l.MapID = c08Other(t, tag+"-mid", c08MapIDs[1:], l.MapID)
			default:
				f := rapid.IntRange(0, 3).Draw(t, tag+"-cfield")
				switch {
				case f == 0 && l.IP != "":
					pool := c08PlainIPs
					if l.K == '+' && rapid.Bool().Draw(t, tag+"-cmk") {
						pool = c08MarkerIPs
					}
					l.IP = c08Other(t, tag+"-cip", pool, l.IP)
				case f == 1 && l.X != "" && strings.IndexByte("C^", l.K) >= 0:
					l.X = c08Other(t, tag+"-cx", c08Targets, l.X)
				case f == 2 && l.K == '\'':
					l.Text = []byte(rapid.SampledFrom([]string{"", "v=1", "a,b:c\\d", strings.Repeat("x", 130)}).Draw(t, tag+"-ctxt"))
				default:
					var nt int64
					fmt.Sscan(c08Other(t, tag+"-cttl", []string{"-1", "0", "60", "300", "86400"}, fmt.Sprint(l.TTL)), &nt)
					l.TTL = nt
				}
			}
		case 's': // a sibling value under the same key
			i := c08Pick(t, tag+"-si", out, func(l *kit.Line) bool { return strings.IndexByte("+='C:BH", l.K) >= 0 })
			if i < 0 {
				done = false
				break
			}
			l := out[i]
			switch l.K {
			case '+':
				l.IP = c08Other(t, tag+"-sip", append(append([]string(nil), c08PlainIPs...), c08MarkerIPs...), l.IP)
			case '=':
				l.IP = c08Other(t, tag+"-sip", c08PlainIPs, l.IP)
			case '\'':
				l.Text = append(append([]byte(nil), l.Text...), 'z')
			case ':':
				// generic rdata is stored as written: the longer value has the
				// shorter one as a prefix
				if len(l.Text) > 0 && rapid.Bool().Draw(t, tag+"-sshort") {
					l.Text = append([]byte(nil), l.Text[:len(l.Text)-1]...)
				} else {
					l.Text = append(append([]byte(nil), l.Text...), 'z')
				}
			case 'B', 'H':
				// parameters are the tail of the value: the list without
				// parameters is a prefix of every other one
				var np int
				fmt.Sscan(c08Other(t, tag+"-spar", []string{"0", "1", "2", "3"}, fmt.Sprint(l.Params)), &np)
				l.Params = np
			default:
				l.X = c08Other(t, tag+"-sx", c08Targets, l.X)
			}
			insert(l)
		case 'm': // a marker address record from a tiny space (equal values pile up)
			if i := c08Pick(t, tag+"-mdup", out, c08IsMarker); i >= 0 && rapid.Bool().Draw(t, tag+"-magain") {
				insert(out[i]) // one more copy of a record that is there already
			} else {
				insert(c08Marker(t, tag+"-mk", out))
			}
		case 'x': // a line of another drawn file
			if len(extra) == 0 {
				done = false
				break
			}
			insert(extra[rapid.IntRange(0, len(extra)-1).Draw(t, tag+"-xi")])
		case 'n': // a new subnet: range points move
			insert(kit.Line{K: '%', Loc: rapid.SampledFrom(c08LocsNet).Draw(t, tag+"-nl"), CIDR: rapid.SampledFrom(c08Subnets).Draw(t, tag+"-nc"),
				MapID: rapid.SampledFrom(c08MapIDs).Draw(t, tag+"-nm"), TTL: -1})
		case 'N': // a subnet goes away
			if i := c08Pick(t, tag+"-Ni", out, func(l *kit.Line) bool { return l.K == '%' }); i >= 0 {
				remove(i)
			} else {
				done = false
			}
		case 'l': // a record moves to another location
			i := c08Pick(t, tag+"-li", out, func(l *kit.Line) bool { return c08IsRR(l.K) })
			if i < 0 {
				done = false
				break
			}
			out[i].Loc = c08Other(t, tag+"-lloc", c08LocsRR, out[i].Loc)
		case 'M': // a map declaration
			own := rapid.SampledFrom(c08Owners(out)).Draw(t, tag+"-Mown")
			insert(kit.Line{K: rapid.SampledFrom([]byte("M8")).Draw(t, tag+"-Mk"), Owner: own, Wild: rapid.Bool().Draw(t, tag+"-Mw"),
				MapID: rapid.SampledFrom(c08MapIDs[1:]).Draw(t, tag+"-Mid"), TTL: -1})
		case 'z': // SOA serial written / omitted (the normalised line changes)
			i := c08Pick(t, tag+"-zi", out, func(l *kit.Line) bool { return l.K == 'Z' })
			if i < 0 {
				done = false
				break
			}
			if out[i].N[0] < 0 {
				out[i].N[0] = int64(rapid.SampledFrom([]int{0, 7, 2023010101}).Draw(t, tag+"-zser"))
			} else {
				out[i].N[0] = -1
			}
		case 'T': // keep a prefix only (down to the empty file)
			out = out[:rapid.IntRange(0, len(out)).Draw(t, tag+"-Tk")]
		}
		if !done {
			insert(c08Marker(t, tag+"-fb", out))
			op = 'm'
		}
		ops = append(ops, op)
	}
	for i := range out {
		// an edit may have put a colon into a field of a ':'-separated line
		if out[i].Colon && !out[i].CanColon() {
			out[i].Colon = false
		}
	}
	return out, string(ops)
}

// c08CanonAddr identifies the record of a '+' line (what ends up as one
// value under one key): lines equal under it declare equal records, others
// do not.
func c08CanonAddr(l *kit.Line) string {
	ttl, w := l.TTL, l.N[0]
	if ttl < 0 {
		ttl = 86400
	}
	if w < 0 {
		w = 1
	}
	return fmt.Sprintf("%s|%v|%q|%d|%d|%s", kit.CanonName(l.Owner), l.Wild, l.Loc, ttl, w, l.IP)
}

func c08IsMarker(l *kit.Line) bool {
	if l.K != '+' {
		return false
	}
	for _, ip := range c08MarkerIPs {
		if l.IP == ip {
			return true
		}
	}
	return false
}

// c08BadLines draws the lines that make a diff inapplicable, given the file
// the database currently holds (cur) and the file the valid part of the diff
// leads to (next).  The verdict "cannot be applied" is derived from the lines
// alone: fresh labels / TTLs / map ids that no generated line uses, counting
// of marker records, and the documented line grammar.
func c08BadLines(t *rapid.T, cur, next []kit.Line) (string, []string) {
	kind := rapid.SampledFrom([]string{"absent-key", "absent-value", "absent-value", "over-delete", "over-delete", "bad-type", "bad-escape", "bare-op", "no-op-char"}).Draw(t, "badkind")
	switch kind {
	case "absent-value":
		i := c08Pick(t, "bad-vi", cur, func(l *kit.Line) bool {
			return strings.IndexByte("+=C^':BH", l.K) >= 0 && (l.IP != "" || l.K != '+')
		})
		if i >= 0 {
			l := cur[i]
			l.TTL = c08FreshTTL
			return kind, []string{"-" + l.Render()}
		}
		kind = "absent-key"
	case "over-delete":
		mult := func(i int) int {
			m := 0
			want := c08CanonAddr(&next[i])
			for j := range next {
				if next[j].K == '+' && c08CanonAddr(&next[j]) == want {
					m++
				}
			}
			return m
		}
		i := c08Pick(t, "bad-oi", next, c08IsMarker)
		if i >= 0 && rapid.IntRange(0, 2).Draw(t, "bad-omax") != 0 {
			// prefer the record with the most copies
			for j := range next {
				if c08IsMarker(&next[j]) && mult(j) > mult(i) {
					i = j
				}
			}
		}
		if i >= 0 {
			m := mult(i)
			// records equal to this one can only come from '+' lines (the
			// marker addresses are used by no other line kind), so after the
			// valid part exactly m copies exist: m+1 further deletes cannot
			// all be served
			var out []string
			for j := 0; j <= m; j++ {
				out = append(out, "-"+next[i].Render())
			}
			if m >= 2 {
				kind = "over-delete-of-equal"
			}
			return kind, out
		}
		kind = "absent-key"
	}
	switch kind {
	case "absent-key":
		own := "zq9." + rapid.SampledFrom(c08Owners(cur)).Draw(t, "bad-kown")
		return kind, []string{rapid.SampledFrom([]string{
			"-+" + own + ",198.18.9.9",
			"-'" + own + ",hello,300",
			"-C" + own + ",t.example.net",
			"-!zz,10.9.0.0,16,l1",
			"-Mzq9.test,m1",
		}).Draw(t, "bad-kline")}
	case "bad-type":
		op := rapid.SampledFrom([]string{"+", "-"}).Draw(t, "bad-op")
		c := rapid.SampledFrom([]string{"?", "$", "*", "z", "~", "\"", "a", "0", " "}).Draw(t, "bad-tchar")
		return kind, []string{op + c + "zq9.test,192.0.2.1"}
	case "bad-escape":
		op := rapid.SampledFrom([]string{"+", "-"}).Draw(t, "bad-op")
		esc := rapid.SampledFrom([]string{`\q1`, `l\`, `\8a`, `\x4`, `\400`}).Draw(t, "bad-esc")
		return kind, []string{op + rapid.SampledFrom([]string{
			"+zq9.test,192.0.2.1,,," + esc,
			"Czq9.test,t.example.net,,," + esc,
			"'zq9.test,hello,,," + esc,
			"!m1,10.9.0.0,16," + esc,
		}).Draw(t, "bad-eline")}
	case "bare-op":
		return kind, []string{rapid.SampledFrom([]string{"+", "-"}).Draw(t, "bad-op")}
	default: // a data line without the operation character
		return "no-op-char", []string{rapid.SampledFrom([]string{"=zq9.test,192.0.2.1", "Czq9.test,t.example.net", " +zq9.test,192.0.2.1", "'zq9.test,x"}).Draw(t, "bad-nline")}
	}
}

func c08Shuffle(t *rapid.T, tag string, lines []string) []string {
	if len(lines) < 2 {
		return append([]string(nil), lines...)
	}
	return rapid.Permutation(lines).Draw(t, tag)
}

func c08InsertAt(t *rapid.T, tag string, lines []string, extra []string) []string {
	out := append([]string(nil), lines...)
	for i, e := range extra {
		pos := rapid.IntRange(0, len(out)).Draw(t, fmt.Sprintf("%s-%d", tag, i))
		out = append(out, "")
		copy(out[pos+1:], out[pos:])
		out[pos] = e
	}
	return out
}

func c08ASCII(s string) bool {
	for i := 0; i < len(s); i++ {
		if s[i] >= 0x80 {
			return false
		}
	}
	return true
}

func c08Gen(t *rapid.T, knownBare bool) *c08Case {
	w := kit.GenWorld(t, kit.GenOpts{Wide: true, MaxLines: 30})
	extraW := kit.GenWorld(t, kit.GenOpts{Wide: true, MaxLines: 12})
	c := &c08Case{V2: rapid.Bool().Draw(t, "v2"), Serial: w.Serial}
	nfiles := rapid.IntRange(2, 4).Draw(t, "chain") + 1
	states := [][]kit.Line{w.Lines}
	if rapid.IntRange(0, 19).Draw(t, "empty-start") == 0 {
		states[0] = nil
	}
	opsOf := []string{""}
	for i := 1; i < nfiles; i++ {
		nx, ops := c08Mutate(t, fmt.Sprintf("mut%d", i), states[i-1], extraW.Lines)
		states = append(states, nx)
		opsOf = append(opsOf, ops)
	}
	for i := range states {
		raw := (&kit.World{Lines: states[i], Serial: c.Serial}).Text()
		p, err := c08Preprocess(raw, c.Serial)
		if err != nil {
			// the generator only writes lines the parser accepts
			panic(fmt.Sprintf("preprocess failed on a generated file: %v\n%s", err, raw))
		}
		c.Raw = append(c.Raw, string(raw))
		c.P = append(c.P, p)
	}
	for i := 0; i+1 < nfiles; {
		to := i + 1
		lines := c08Diff(c.P[i], c.P[to])
		ops := opsOf[to]
		if to+1 < nfiles && rapid.IntRange(0, 4).Draw(t, "composed") == 0 {
			// two successive diffs handed over as one file
			lines = append(lines, c08Diff(c.P[to], c.P[to+1])...)
			to++
			ops += "+" + opsOf[to]
		}
		if rapid.IntRange(0, 2).Draw(t, "with-failure") == 0 {
			kind, bad := c08BadLines(t, states[i], states[to])
			s := c08Step{Fail: kind, To: i, Ops: ops}
			valid := c08Shuffle(t, "perm-f", lines)
			padOdds := 5
			if kind == "bare-op" && rapid.Bool().Draw(t, "bare-last") {
				// the truncated-file shape: the lone operation character ends the file
				s.Diff = append(valid, bad...)
				padOdds = 1
			} else {
				s.Diff = c08InsertAt(t, "badpos", valid, bad)
			}
			s.NoNL = rapid.IntRange(0, 3).Draw(t, "nonl-f") == 0
			s.ViaFile = rapid.IntRange(0, 3).Draw(t, "viafile-f") == 0
			if rapid.IntRange(0, padOdds).Draw(t, "pad-f") == 0 {
				s.Pad = 70
			}
			if last := s.Diff[len(s.Diff)-1]; kind == "bare-op" && s.NoNL && (last == "+" || last == "-") && knownBare {
				kit.Excluded(c08KBare)
				s.NoNL = false
			}
			c.Steps = append(c.Steps, s)
		}
		s := c08Step{To: to, Ops: ops}
		s.Diff = c08Shuffle(t, "perm", lines)
		if rapid.IntRange(0, 5).Draw(t, "filler") == 0 {
			s.Diff = c08InsertAt(t, "fillpos", s.Diff, []string{"# comment", ""})
		}
		s.NoNL = rapid.IntRange(0, 3).Draw(t, "nonl") == 0
		s.ViaFile = rapid.IntRange(0, 3).Draw(t, "viafile") == 0
		if rapid.IntRange(0, 7).Draw(t, "pad") == 0 {
			s.Pad = 70
		}
		c.Steps = append(c.Steps, s)
		i = to
	}
	return c
}

func c08Book(c *c08Case, infos []c08StepInfo) {
	layout := "v1"
	if c.V2 {
		layout = "v2"
	}
	kit.Class("layout-" + layout)
	kit.Class(fmt.Sprintf("files-%d", len(c.P)))
	sig := []string{layout, fmt.Sprint(len(c.P) - 1)}
	nt := false
	for i, s := range c.Steps {
		info := infos[i]
		if s.Pad > 0 {
			kit.Class("diff-longer-than-2KiB")
		}
		if s.Fail != "" {
			kit.Class("step-fail-" + s.Fail)
			sig = append(sig, "F:"+s.Fail)
			nt = true
			continue
		}
		kit.Class("step-ok")
		if s.To >= 2 && strings.Contains(s.Ops, "+") {
			kit.Class("step-ok-composed")
		}
		switch {
		case info.nlines == 0:
			kit.Class("diff-lines-0")
		case info.nlines <= 3:
			kit.Class("diff-lines-1-3")
		case info.nlines <= 10:
			kit.Class("diff-lines-4-10")
		default:
			kit.Class("diff-lines-11+")
		}
		if info.plusMinusOneKey {
			kit.Class("shape-plus-and-minus-on-one-key")
		}
		if info.bang {
			kit.Class("shape-range-points-move")
		}
		if info.oneOfEqual {
			kit.Class("shape-one-of-equal-values-removed")
		}
		if info.keyGone {
			kit.Class("shape-key-disappears")
		}
		if info.keyNew {
			kit.Class("shape-key-appears")
		}
		if strings.Contains(s.Ops, "l") {
			kit.Class("shape-location-move")
		}
		if s.ViaFile {
			kit.Class("driven-via-file")
		}
		if s.NoNL {
			kit.Class("no-final-newline")
		}
		if info.nonTrivial() {
			nt = true
		}
		sig = append(sig, info.bits())
	}
	if nt {
		kit.NonTrivial(strings.Join(sig, "|"))
	} else {
		kit.Class("trivial-chain")
	}
}

// c08KnownBareCase is the minimal reproduction of c08KBare: one valid line,
// enough comment lines to make the scanner move its buffer, then "+" without
// a newline.
func c08KnownBareCase() *c08Case {
	return &c08Case{Serial: 1, P: []string{"+a.com,192.0.2.1\n"},
		Steps: []c08Step{{Diff: []string{"++b.com,192.0.2.2", "+"}, Fail: "bare-op", To: 0, NoNL: true, Pad: 70}}}
}

func TestC08(t *testing.T) {
	if f := kit.ReplayFile(); f != "" {
		var c c08Case
		kit.LoadReplay(t, f, &c)
		c08Run(t, &c)
		kit.Eval()
		return
	}
	// listed finding: a lone operation character that ends a diff of more than
	// about 2 KiB without a newline makes ApplyDiff panic instead of failing.
	// While it is listed the generator terminates that line; shard 0 runs the
	// minimal case once.
	knownBare := kit.IsKnown("C08", c08KBare)
	if knownBare && kit.Shard() == 0 {
		kc := c08KnownBareCase()
		if _, v := c08Exec(kc); v != nil && v.key == c08KBare {
			kit.KnownSeen("C08", c08KBare)
		} else {
			kit.Note("listed finding %s did not reproduce on its minimal case (got %+v)", c08KBare, v)
		}
	}
	// one large failing diff (more records than the compiler's batch size of 100000,
	// the bad line at the end): all-or-nothing must hold for big diffs as well
	if kit.Shard() == 1%kit.NShards() {
		c08BigFailingDiff(t)
		kit.Eval()
		kit.Class("big-failing-diff")
		kit.NonTrivial("big-failing-diff")
	}
	kit.SetRapid(kit.N(300, 3000))
	rapid.Check(t, kit.Prop("C08", func(t *rapid.T) {
		c := c08Gen(t, knownBare)
		kit.Case(c)
		for _, p := range c.P {
			if !c08ASCII(p) {
				kit.Class("non-ascii-text") // would not survive the JSON replay file
			}
		}
		infos := c08Run(t, c)
		c08Book(c, infos)
		kit.Sample(c)
	}))
}

type c08BigCase struct {
	Records int    `json:"records"`
	BadLine string `json:"bad_line"`
	V2      bool   `json:"v2"`
}

// c08BigFailingDiff applies a diff of 100100 additions followed by a delete of
// an absent record to a small database: it must fail and change nothing.
func c08BigFailingDiff(t kit.Fataler) {
	for _, v2 := range []bool{false, true} {
		cs := c08BigCase{Records: 100100, BadLine: "-+absent.big.example,192.0.2.9", V2: v2}
		dir := kit.Scratch("c08big")
		p, err := kit.Compile([]byte("+a.big.example,192.0.2.1\n+b.big.example,192.0.2.2\n"), 1, dir, c08Backend(v2), kit.DefaultCompile)
		if err != nil {
			kit.Fail(t, "C08", "setup-error", cs, "compile: %v", err)
		}
		before, err := kit.DumpRDBc08(p)
		if err != nil {
			kit.Fail(t, "C08", "setup-error", cs, "dump: %v", err)
		}
		var sb strings.Builder
		for i := 0; i < cs.Records; i++ {
			fmt.Fprintf(&sb, "++n%d.big.example,192.0.2.3\n", i)
		}
		sb.WriteString(cs.BadLine + "\n")
		u, err := rdb.NewUpdater(p)
		if err != nil {
			kit.Fail(t, "C08", "setup-error", cs, "updater: %v", err)
		}
		aerr := u.ApplyDiff(strings.NewReader(sb.String()), 1)
		_ = u.Close()
		after, derr := kit.DumpRDBc08(p)
		if derr == nil && aerr != nil && c08SameChunks(before, after) == "" {
			c08LargeValidAndOverlong(t, p, v2, before)
		}
		_ = os.RemoveAll(dir)
		if derr != nil {
			kit.Fail(t, "C08", "setup-error", cs, "dump: %v", derr)
		}
		if aerr == nil {
			kit.Fail(t, "C08", "bad-diff-accepted/big", cs, "a diff deleting an absent record was applied without error")
		}
		if d := c08SameChunks(before, after); d != "" || len(before) != len(after) {
			kit.Fail(t, "C08", "failed-diff-changed-db/big", cs, "a failing diff of %d records left the database changed: %d keys before, %d after (%s)", cs.Records, len(before), len(after), d)
		}
	}
}

// c08LargeValidAndOverlong: (1) a diff whose text ends in a line longer than the
// scanner's 64 KiB token limit must fail and change nothing although valid lines
// precede it; (2) a valid diff of ~25 KiB (several I/O buffers) must give the
// database of the new file.
func c08LargeValidAndOverlong(t kit.Fataler, p string, v2 bool, before map[string][]string) {
	cs := c08BigCase{Records: 500, BadLine: "(a 70000-byte line)", V2: v2}
	var sb strings.Builder
	for i := 0; i < 20; i++ {
		fmt.Fprintf(&sb, "++o%d.big.example,192.0.2.4\n", i)
	}
	sb.WriteString("+'long.big.example," + strings.Repeat("x", 70000) + "\n")
	u, err := rdb.NewUpdater(p)
	if err != nil {
		kit.Fail(t, "C08", "setup-error", cs, "updater: %v", err)
	}
	aerr := u.ApplyDiff(strings.NewReader(sb.String()), 1)
	_ = u.Close()
	after, derr := kit.DumpRDBc08(p)
	if derr != nil {
		kit.Fail(t, "C08", "setup-error", cs, "dump: %v", derr)
	}
	if aerr == nil {
		kit.Fail(t, "C08", "bad-diff-accepted/overlong-line", cs, "a diff with a 70000-byte line (beyond the scanner's token limit) was applied without error")
	}
	if d := c08SameChunks(before, after); d != "" {
		kit.Fail(t, "C08", "failed-diff-changed-db/overlong-line", cs, "a diff that failed on an overlong line left the database changed: %s", d)
	}
	// (2) large valid diff
	var lines, diff strings.Builder
	lines.WriteString("+a.big.example,192.0.2.1\n+b.big.example,192.0.2.2\n")
	for i := 0; i < cs.Records; i++ {
		l := fmt.Sprintf("+host%04d.big.example,192.0.2.%d,%d", i, i%250+1, 60+i%7)
		lines.WriteString(l + "\n")
		diff.WriteString("+" + l + "\n")
	}
	u, err = rdb.NewUpdater(p)
	if err != nil {
		kit.Fail(t, "C08", "setup-error", cs, "updater: %v", err)
	}
	aerr = u.ApplyDiff(strings.NewReader(diff.String()), 1)
	_ = u.Close()
	if aerr != nil {
		kit.Fail(t, "C08", "valid-diff-rejected/large", cs, "a valid diff of %d added lines (%d bytes) was rejected: %v", cs.Records, diff.Len(), aerr)
	}
	got, derr := kit.DumpRDBc08(p)
	if derr != nil {
		kit.Fail(t, "C08", "setup-error", cs, "dump: %v", derr)
	}
	dir2 := kit.Scratch("c08big2")
	defer os.RemoveAll(dir2)
	p2, err := kit.Compile([]byte(lines.String()), 1, dir2, c08Backend(v2), kit.DefaultCompile)
	if err != nil {
		kit.Fail(t, "C08", "setup-error", cs, "compile: %v", err)
	}
	want, derr := kit.DumpRDBc08(p2)
	if derr != nil {
		kit.Fail(t, "C08", "setup-error", cs, "dump: %v", derr)
	}
	if d := c08SameChunks(want, got); d != "" || len(want) != len(got) {
		kit.Fail(t, "C08", "db-differs-from-fresh-compile/large", cs, "after a valid diff of %d added lines the database differs from a fresh compile of the new file: %d keys vs %d (%s)", cs.Records, len(got), len(want), d)
	}
}
