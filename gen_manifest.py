#!/usr/bin/env python3
"""Regenerate MANIFEST.json from checks.json (single source for per-property registration)."""
import json, os
root = os.path.dirname(os.path.abspath(__file__))
cfg = json.load(open(os.path.join(root, "checks.json")))
ids = [json.loads(l)["id"] for l in open(os.path.join(root, "properties.jsonl"))]
pending = json.load(open(os.path.join(root, "pending.json"))) if os.path.exists(os.path.join(root, "pending.json")) else {}
checks = []
for pid in sorted(cfg):
    c = cfg[pid]
    checks.append({
        "property_id": pid,
        "quick_cmd": "./check %s quick" % pid,
        "thorough_cmd": "./check %s thorough" % pid,
        "evidence_file": "/verif/evidence/%s.json" % pid,
        "replay_cmd_template": "./check replay {path}",
        "engine": "rapid-pbt",
        "level_claimed": {"category": c.get("level", "exploration"), "text": c["level_text"], "design_ref": c.get("design_ref", "DESIGN.md section 4, " + pid)},
        "level_note": c["level_note"],
        "technique": c["technique"],
    })
na = [{"property_id": i, "reason": pending.get(i, "check not built yet in this session; design in DESIGN.md section 4")} for i in ids if i not in cfg]
hooks_commits = [l.strip() for l in open(os.path.join(root, "MANIFEST.hooks")) if l.strip() and not l.startswith("#")] if os.path.exists(os.path.join(root, "MANIFEST.hooks")) else []
man = {
    "version": 1,
    "setup_cmd": "./check setup",
    "hooks": {
        "guard": "verif",
        "enable": "go test -tags verif (the harness module /verif replaces the dnsrocks module with /repo/dnsrocks, so every check compiles /repo's working tree with the tag on)",
        "baseline_off_cmd": "cd /repo && for m in $(cat /w/out/gomods.txt); do MF=$(cd /repo/$m && . /w/out/goenv.sh && gomodflag); (cd /repo/$m && go test $MF -json -vet=off -count=1 -timeout 25m ./...); done",
        "source_commits": [h.split()[0] for h in hooks_commits],
        "add_only": True,
    },
    "engines": [
        {"name": "rapid-pbt", "path": "/verif/props", "serves_properties": sorted(cfg), "kind_free_text": "pgregory.net/rapid property-based tests (generators, state machines, shrinking) plus enumerated small domains and Go native fuzz targets, run in sharded processes by /verif/check"},
    ],
    "checks": checks,
    "notes": "Technique family: property-based testing and fuzzing. ./check <ID> <tier> rebuilds the test binary from /repo's working tree (build tag verif), runs it in up to 16 shards with seeds derived from VERIF_SEED, merges the shards' measured counters into evidence/<ID>.json and maps failures to VIOLATION/KNOWN-FINDING lines via known_findings.json.",
    "not_applicable": na,
}
json.dump(man, open(os.path.join(root, "MANIFEST.json"), "w"), indent=1)
print("wrote MANIFEST.json: %d checks, %d not yet claimed" % (len(checks), len(na)))
