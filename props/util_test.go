package props

import (
	"fmt"
	"os"
	"strconv"
)

// recorder is a kit.Fataler that records instead of stopping the test; used
// by the dedicated sub-runs of listed known findings.  kit.Fail writes its
// failure file before calling Fatalf, so callers remove that file again.
type recorder struct {
	failed bool
	msg    string
}

type recorderStop struct{}

func (r *recorder) Fatalf(format string, a ...interface{}) {
	r.failed = true
	r.msg = fmt.Sprintf(format, a...)
	panic(recorderStop{})
}

// try runs f and reports whether it called Fatalf on r.
func (r *recorder) try(f func()) (failed bool) {
	defer func() {
		if x := recover(); x != nil {
			if _, ok := x.(recorderStop); ok {
				failed = true
				return
			}
			panic(x)
		}
	}()
	f()
	return r.failed
}

// scalePct lets a developer shrink a campaign (VERIF_DEV_PCT, default 100).
func scalePct() int {
	if v := os.Getenv("VERIF_DEV_PCT"); v != "" {
		if n, err := strconv.Atoi(v); err == nil && n > 0 {
			return n
		}
	}
	return 100
}
