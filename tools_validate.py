#!/usr/bin/env python3
"""Validate MANIFEST.json and evidence/*.json against the schemas (uses the tooling venv's jsonschema)."""
import json, sys, glob, os
import jsonschema
root = os.path.dirname(os.path.abspath(__file__))
man = json.load(open(os.path.join(root, "MANIFEST.json")))
jsonschema.validate(man, json.load(open("/root/.vp/MANIFEST.schema.json")))
es = json.load(open("/root/.vp/EVIDENCE.schema.json"))
bad = 0
for c in man["checks"]:
    f = c["evidence_file"]
    if not os.path.exists(f):
        print("missing evidence", f); bad += 1; continue
    try:
        jsonschema.validate(json.load(open(f)), es)
    except Exception as e:
        print("invalid", f, str(e)[:300]); bad += 1
ids = [json.loads(l)["id"] for l in open(os.path.join(root, "properties.jsonl"))]
claimed = {c["property_id"] for c in man["checks"]}
na = {x["property_id"] for x in man.get("not_applicable", [])}
for i in ids:
    if i not in claimed and i not in na:
        print("property neither claimed nor not_applicable:", i); bad += 1
print("manifest ok; checks=%d not_applicable=%d bad=%d" % (len(claimed), len(na), bad))
sys.exit(1 if bad else 0)
