// Package kit holds the shared generators, oracles and bookkeeping of the
// property-based checks in ../props.
package kit
