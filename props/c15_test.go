package props

import (
	"errors"
	"fmt"
	"io"
	"os"
	"path/filepath"
	"sort"
	"strings"
	"testing"
	"time"

	"github.com/facebookincubator/dns/dnsrocks/dnsdata/rdb"
	"pgregory.net/rapid"

	"verif/kit"
)

// C15: the RocksDB multi-value store behaves like a map of lists.
//
// Oracle: a map[string][]string that is advanced by a transition relation
// written here (append for Add; "old list minus one occurrence of v" for Del;
// multiset old+adds-dels for a batch, which fails as a whole iff some deletion
// has nothing to delete; identity for failed operations, reopen, backup and
// restore).  The store is read back after every step through Find/ForEach
// with a fresh per-request Context, and through a secondary reader
// (Find/ForEach/FindClosest) plus a raw iterator dump decoded by
// kit.DumpRDB at every close.

const c15ID = "C15"

var (
	c15Long   = strings.Repeat("x", 299)
	c15Keys   = []string{"a", "ab", "b", "\x00o", "\x00oa", ""}
	c15Values = []string{
		"", "x", "xy", "xz", "xyz",
		"\x00\x00\x00\x00",           // looks like an empty chunk
		"\x01\x00\x00\x00x",          // looks like the chunk "x"
		c15Long + "a", c15Long + "b", // 300 bytes, equal-length neighbours
	}
)

type c15BOp struct {
	Del bool   `json:"del,omitempty"`
	K   string `json:"k"`
	V   string `json:"v"`
}

type c15Op struct {
	Kind  string   `json:"kind"` // add | del | batch | reopen | backup | close (terminal)
	K     string   `json:"k,omitempty"`
	V     string   `json:"v,omitempty"`
	Batch []c15BOp `json:"batch,omitempty"`
	Mode  string   `json:"mode,omitempty"` // reopen: updater|rdb ; backup: stay|switch
}

type c15Case struct {
	Stage string   `json:"stage"`
	Keys  []string `json:"keys"` // keys read back after every step
	Ops   []c15Op  `json:"ops"`
}

// ---- model helpers ----------------------------------------------------------

func c15EqualLists(a, b []string) bool {
	if len(a) != len(b) {
		return false
	}
	for i := range a {
		if a[i] != b[i] {
			return false
		}
	}
	return true
}

func c15Sorted(l []string) []string {
	c := append([]string(nil), l...)
	sort.Strings(c)
	return c
}

func c15Index(l []string, v string) int {
	for i, x := range l {
		if x == v {
			return i
		}
	}
	return -1
}

func c15RemoveAt(l []string, i int) []string {
	c := make([]string, 0, len(l)-1)
	c = append(c, l[:i]...)
	return append(c, l[i+1:]...)
}

// c15BatchExpect applies all additions, then all deletions.  ok=false when a
// deletion finds nothing to delete (the batch must then fail as a whole).
func c15BatchExpect(model map[string][]string, ops []c15BOp) (next map[string][]string, ok bool) {
	next = map[string][]string{}
	for _, o := range ops {
		if _, seen := next[o.K]; !seen {
			next[o.K] = append([]string(nil), model[o.K]...)
		}
	}
	for _, o := range ops {
		if !o.Del {
			next[o.K] = append(next[o.K], o.V)
		}
	}
	for _, o := range ops {
		if o.Del {
			i := c15Index(next[o.K], o.V)
			if i < 0 {
				return nil, false
			}
			next[o.K] = c15RemoveAt(next[o.K], i)
		}
	}
	return next, true
}

func c15Short(l []string) string {
	parts := make([]string, len(l))
	for i, v := range l {
		if len(v) > 12 {
			parts[i] = fmt.Sprintf("%q..(%d bytes)..%q", v[:3], len(v), v[len(v)-2:])
		} else {
			parts[i] = fmt.Sprintf("%q", v)
		}
	}
	return "[" + strings.Join(parts, " ") + "]"
}

// ---- the store under test plus its model --------------------------------------

type c15Expect struct {
	shape    string                // failure key when the read-back disagrees
	multiset map[string]bool       // keys compared as multisets in this step
	alts     map[string][][]string // acceptable exact lists (Del with several equal values)
}

type c15Store struct {
	stage   string
	base    string
	dir     string
	bk      string
	ndirs   int
	db      *rdb.RDB
	model   map[string][]string
	keys    []string
	ops     []c15Op
	tokens  []string
	nontriv bool
	classes map[string]int64
}

func c15NewStore(t kit.Fataler, stage string, keys []string) *c15Store {
	base, err := os.MkdirTemp(kit.OutDir(), "c15-")
	if err != nil {
		t.Fatalf("mkdir: %v", err)
	}
	s := &c15Store{stage: stage, base: base, model: map[string][]string{}, keys: keys, classes: map[string]int64{}}
	s.dir = s.newDir(t, "db")
	s.bk = s.newDir(t, "bk")
	s.db, err = rdb.NewRDB(s.dir)
	if err != nil {
		s.cleanup()
		t.Fatalf("NewRDB(%s): %v", s.dir, err)
	}
	return s
}

func (s *c15Store) newDir(t kit.Fataler, prefix string) string {
	s.ndirs++
	d := filepath.Join(s.base, fmt.Sprintf("%s%d", prefix, s.ndirs))
	if err := os.MkdirAll(d, 0o755); err != nil {
		t.Fatalf("mkdir: %v", err)
	}
	return d
}

func (s *c15Store) cleanup() {
	if s.db != nil {
		_ = s.db.Close()
		s.db = nil
	}
	_ = os.RemoveAll(s.base)
}

func (s *c15Store) caseObj() c15Case {
	return c15Case{Stage: s.stage, Keys: s.keys, Ops: s.ops}
}

func (s *c15Store) fail(t kit.Fataler, key, format string, a ...interface{}) {
	kit.Fail(t, c15ID, key, s.caseObj(), "after step %d (%s): %s", len(s.ops), s.lastKind(), fmt.Sprintf(format, a...))
}

func (s *c15Store) lastKind() string {
	if len(s.ops) == 0 {
		return "open"
	}
	return s.ops[len(s.ops)-1].Kind
}

func (s *c15Store) token(tok string, nontrivial bool) { s.token2(tok, tok, nontrivial) }

// token2 records the signature token (detailed) and the histogram class (coarse).
func (s *c15Store) token2(tok, class string, nontrivial bool) {
	s.tokens = append(s.tokens, tok)
	if s.stage == "rapid" {
		s.classes["op:"+class]++
	} else {
		s.classes["ex-op:"+class]++
	}
	if nontrivial {
		s.nontriv = true
	}
}

// readKeys is the read alphabet plus every key the model knows.
func (s *c15Store) readKeys() []string {
	seen := map[string]bool{}
	var out []string
	for _, k := range s.keys {
		if !seen[k] {
			seen[k] = true
			out = append(out, k)
		}
	}
	var extra []string
	for k := range s.model {
		if !seen[k] {
			seen[k] = true
			extra = append(extra, k)
		}
	}
	sort.Strings(extra)
	return append(out, extra...)
}

// readOne reads one key through Find and ForEach, each with a fresh Context.
func (s *c15Store) readOne(t kit.Fataler, h *rdb.RDB, k string, who string) []string {
	first, ferr := h.Find([]byte(k), rdb.NewContext())
	var got []string
	err := h.ForEach([]byte(k), func(v []byte) error {
		got = append(got, string(v))
		return nil
	}, rdb.NewContext())
	if err != nil {
		s.fail(t, "foreach-error", "%s ForEach(%q): %v", who, k, err)
	}
	switch {
	case ferr == nil:
		if len(got) == 0 || got[0] != string(first) {
			s.fail(t, "find-foreach-disagree", "%s Find(%q)=%q but ForEach gives %s", who, k, first, c15Short(got))
		}
	case errors.Is(ferr, io.EOF):
		if len(got) != 0 {
			s.fail(t, "find-foreach-disagree", "%s Find(%q) reports no data but ForEach gives %s", who, k, c15Short(got))
		}
	default:
		s.fail(t, "find-error", "%s Find(%q): %v", who, k, ferr)
	}
	return got
}

// readAll compares every key with the model (and adopts the observed order
// where the step leaves the order open).
func (s *c15Store) readAll(t kit.Fataler, h *rdb.RDB, exp c15Expect, who string) {
	for _, k := range s.readKeys() {
		got := s.readOne(t, h, k, who)
		want := s.model[k]
		switch {
		case exp.multiset[k]:
			if !c15EqualLists(c15Sorted(got), c15Sorted(want)) {
				s.fail(t, exp.shape, "%s key %q holds %s, want the multiset %s", who, k, c15Short(got), c15Short(want))
			}
		case exp.alts[k] != nil:
			ok := false
			for _, a := range exp.alts[k] {
				if c15EqualLists(got, a) {
					ok = true
				}
			}
			if !ok {
				s.fail(t, exp.shape, "%s key %q holds %s, want %s with one occurrence removed", who, k, c15Short(got), c15Short(want))
			}
		default:
			if !c15EqualLists(got, want) {
				s.fail(t, exp.shape, "%s key %q holds %s, want %s", who, k, c15Short(got), c15Short(want))
			}
			continue
		}
		if len(got) == 0 {
			delete(s.model, k)
		} else {
			s.model[k] = got
		}
	}
}

func (s *c15Store) presentKeys() []string {
	var ks []string
	for k, l := range s.model {
		if len(l) > 0 {
			ks = append(ks, k)
		}
	}
	sort.Strings(ks)
	return ks
}

// verifyClosed inspects a directory nobody has open for writing: secondary
// reader (Find/ForEach/FindClosest) and the raw dump.
func (s *c15Store) verifyClosed(t kit.Fataler, dir, shape, who string) {
	r, err := rdb.NewReader(dir)
	if err != nil {
		s.fail(t, "reader-open-error", "NewReader(%s): %v", who, err)
	}
	func() {
		defer r.Close()
		s.readAll(t, r, c15Expect{shape: shape}, who+" reader")
		present := s.presentKeys()
		probes := []string{"\x00", "aa", "\xff\xff"}
		for _, k := range s.readKeys() {
			probes = append(probes, k, k+"\x00")
		}
		for _, q := range probes {
			wantKey, found := "", false
			for _, k := range present {
				if k <= q {
					wantKey, found = k, true
				}
			}
			gk, gv, err := r.FindClosest([]byte(q), rdb.NewContext())
			if err != nil {
				s.fail(t, "findclosest-error", "%s FindClosest(%q): %v", who, q, err)
			}
			if !found {
				if gk != nil || gv != nil {
					s.fail(t, shape+"-closest", "%s FindClosest(%q) = key %q value %x, want nothing", who, q, gk, gv)
				}
				continue
			}
			if gk == nil || string(gk) != wantKey {
				s.fail(t, shape+"-closest", "%s FindClosest(%q) = key %q (value %x), want key %q", who, q, gk, gv, wantKey)
			}
			chunks, derr := kit.DecodeChunks(gv)
			if derr != nil || !c15EqualLists(chunks, s.model[wantKey]) {
				s.fail(t, shape+"-closest", "%s FindClosest(%q) = key %q with %s (%v), want %s", who, q, gk, c15Short(chunks), derr, c15Short(s.model[wantKey]))
			}
		}
	}()
	s.verifyDump(t, dir, shape, who)
}

func (s *c15Store) verifyDump(t kit.Fataler, dir, shape, who string) {
	dump, err := kit.DumpRDB(dir)
	if err != nil {
		s.fail(t, "dump-error", "%s: %v", who, err)
	}
	var dkeys []string
	for k := range dump {
		dkeys = append(dkeys, k)
	}
	sort.Strings(dkeys)
	for _, k := range dkeys {
		if len(dump[k]) == 0 {
			s.fail(t, "empty-key-left", "%s dump: key %q is stored with an empty value (model: %s)", who, k, c15Short(s.model[k]))
		}
		if !c15EqualLists(dump[k], s.model[k]) {
			s.fail(t, shape+"-dump", "%s dump: key %q holds %s, want %s", who, k, c15Short(dump[k]), c15Short(s.model[k]))
		}
	}
	for _, k := range s.presentKeys() {
		if _, ok := dump[k]; !ok {
			s.fail(t, shape+"-dump", "%s dump: key %q is missing, want %s", who, k, c15Short(s.model[k]))
		}
	}
}

func (s *c15Store) open(t kit.Fataler, dir, mode string) {
	var err error
	if mode == "rdb" {
		s.db, err = rdb.NewRDB(dir)
	} else {
		s.db, err = rdb.NewUpdater(dir)
	}
	if err != nil {
		s.db = nil
		s.fail(t, "reopen-error", "open %s as %s: %v", dir, mode, err)
	}
}

func c15Scribble(b []byte) {
	for i := range b {
		b[i] = 0xEE
	}
}

// apply executes one operation on the store and on the model and reads
// everything back.
func (s *c15Store) apply(t kit.Fataler, op c15Op) {
	s.ops = append(s.ops, op)
	if s.db == nil {
		t.Fatalf("C15: operation %q after close", op.Kind)
	}
	exp := c15Expect{}
	switch op.Kind {
	case "add":
		old := s.model[op.K]
		kb, vb := []byte(op.K), []byte(op.V)
		err := s.db.Add(kb, vb)
		if err != nil {
			s.fail(t, "add-error", "Add(%q,%s): %v", op.K, c15Short([]string{op.V}), err)
		}
		c15Scribble(kb)
		c15Scribble(vb)
		s.model[op.K] = append(append([]string(nil), old...), op.V)
		exp.shape = "add-not-append"
		if len(old) == 0 {
			s.token("A", false)
		} else {
			s.token("a", false)
		}
	case "del":
		old := s.model[op.K]
		idx := c15Index(old, op.V)
		err := s.db.Del([]byte(op.K), []byte(op.V))
		if idx < 0 {
			if err == nil {
				s.fail(t, "del-absent-accepted", "Del(%q,%s) succeeded although the model holds %s", op.K, c15Short([]string{op.V}), c15Short(old))
			}
			exp.shape = "failed-del-changed-state"
			if len(old) == 0 {
				s.token("Dk", true)
			} else {
				s.token("Dx", true)
			}
			break
		}
		if err != nil {
			s.fail(t, "del-error", "Del(%q,%s): %v although the model holds %s", op.K, c15Short([]string{op.V}), err, c15Short(old))
		}
		var alts [][]string
		last := -1
		for i, x := range old {
			if x == op.V {
				alts = append(alts, c15RemoveAt(old, i))
				last = i
			}
		}
		exp.shape = "del-wrong-result"
		if len(alts) > 1 {
			exp.alts = map[string][][]string{op.K: alts}
		}
		s.model[op.K] = alts[0]
		if len(alts[0]) == 0 {
			delete(s.model, op.K)
		}
		switch {
		case len(old) == 1:
			s.token("D1", false)
		case idx == 0 && last == 0:
			s.token("D0", false)
		case idx == len(old)-1:
			s.token("Dl", true)
		case len(alts) > 1:
			s.token("Dd", true) // several equal values
		default:
			s.token("Dm", true)
		}
	case "batch":
		next, ok := c15BatchExpect(s.model, op.Batch)
		b := s.db.CreateBatch()
		for _, o := range op.Batch {
			kb, vb := []byte(o.K), []byte(o.V)
			if o.Del {
				b.Del(kb, vb)
			} else {
				b.Add(kb, vb)
			}
			c15Scribble(kb)
			c15Scribble(vb)
		}
		if b.IsEmpty() != (len(op.Batch) == 0) {
			s.fail(t, "batch-isempty", "IsEmpty()=%v for a batch of %d operations", b.IsEmpty(), len(op.Batch))
		}
		err := s.db.ExecuteBatch(b)
		nadd, ndel, addDelSameKey, dupKeys, sameVal := 0, 0, false, false, false
		addK, delK, addKV := map[string]int{}, map[string]int{}, map[string]bool{}
		for _, o := range op.Batch {
			if o.Del {
				ndel++
				delK[o.K]++
			} else {
				nadd++
				addK[o.K]++
				addKV[o.K+"\xff"+o.V] = true
			}
		}
		for _, o := range op.Batch {
			if addK[o.K] > 0 && delK[o.K] > 0 {
				addDelSameKey = true
			}
			if addK[o.K]+delK[o.K] > 1 {
				dupKeys = true
			}
			if o.Del && addKV[o.K+"\xff"+o.V] {
				sameVal = true
			}
		}
		tok := fmt.Sprintf("B%da%dd", nadd, ndel)
		class := "batch"
		distinct := map[string]bool{}
		for _, o := range op.Batch {
			distinct[o.K] = true
		}
		if len(distinct) > 1 {
			class += "-multikey"
		}
		if dupKeys {
			tok += "u"
			class += "-dupkeys"
		}
		if addDelSameKey {
			tok += "s"
			class += "-adddel-samekey"
		}
		if sameVal {
			tok += "v"
			class += "-adddel-samevalue"
		}
		if !ok {
			if err == nil {
				s.fail(t, "batch-should-fail", "ExecuteBatch succeeded although a deletion has nothing to delete")
			}
			exp.shape = "failed-batch-changed-state"
			s.token2(tok+"F", class+"-FAILING", true)
			break
		}
		if err != nil {
			s.fail(t, "batch-error", "ExecuteBatch: %v although every deletion has a value to delete", err)
		}
		exp.shape = "batch-wrong-result"
		exp.multiset = map[string]bool{}
		for k, l := range next {
			exp.multiset[k] = true
			if len(l) == 0 {
				delete(s.model, k)
			} else {
				s.model[k] = l
			}
		}
		s.token2(tok, class, addDelSameKey)
		s.classes[fmt.Sprintf("batch-ok-size-%s", sizeClass(len(op.Batch)))]++
	case "reopen":
		err := s.db.Close()
		s.db = nil
		if err != nil {
			s.fail(t, "close-error", "Close: %v", err)
		}
		s.verifyClosed(t, s.dir, "reopen-mismatch", "closed store")
		s.open(t, s.dir, op.Mode)
		exp.shape = "reopen-mismatch"
		if op.Mode == "rdb" {
			s.token("r", false)
		} else {
			s.token("R", false)
		}
	case "close": // terminal: nothing may follow
		err := s.db.Close()
		s.db = nil
		if err != nil {
			s.fail(t, "close-error", "Close: %v", err)
		}
		s.verifyClosed(t, s.dir, "reopen-mismatch", "closed store")
		s.token("C", false)
		return
	case "backup":
		err := s.db.Close()
		s.db = nil
		if err != nil {
			s.fail(t, "close-error", "Close: %v", err)
		}
		if err := rdb.Backup(s.dir, s.bk); err != nil {
			s.fail(t, "backup-error", "Backup: %v", err)
		}
		fresh := s.newDir(t, "db")
		if err := rdb.Restore(fresh, s.bk); err != nil {
			s.fail(t, "restore-error", "Restore: %v", err)
		}
		s.verifyClosed(t, fresh, "restore-mismatch", "restored copy")
		// (the source is checked by the reads after reopening it and by the
		// dump at its next close; every DB open costs several fsyncs)
		if op.Mode == "switch" {
			s.dir = fresh
			s.bk = s.newDir(t, "bk")
			s.token("k", false)
		} else {
			_ = os.RemoveAll(fresh)
			s.token("K", false)
		}
		s.open(t, s.dir, "updater")
		exp.shape = "restore-mismatch"
	default:
		t.Fatalf("unknown op kind %q", op.Kind)
	}
	s.readAll(t, s.db, exp, "live store")
}

func (s *c15Store) flushStats() {
	for k, n := range s.classes {
		kit.ClassN(k, n)
	}
	s.classes = map[string]int64{}
}

// ---- generators ---------------------------------------------------------------

func c15Pool(model map[string][]string, keys []string, adds []c15BOp) map[string][]string {
	pool := map[string][]string{}
	for _, k := range keys {
		pool[k] = append([]string(nil), model[k]...)
	}
	for _, a := range adds {
		if _, ok := pool[a.K]; !ok {
			pool[a.K] = append([]string(nil), model[a.K]...)
		}
		pool[a.K] = append(pool[a.K], a.V)
	}
	return pool
}

// c15GenBatch builds a batch by construction.  want: "valid", "failing", "free".
func c15GenBatch(t *rapid.T, model map[string][]string, want string) []c15BOp {
	keyGen := rapid.SampledFrom(c15Keys)
	valGen := rapid.SampledFrom(c15Values)
	sub := rapid.SliceOfNDistinct(keyGen, 1, 3, rapid.ID[string]).Draw(t, "batchKeys")
	subGen := rapid.SampledFrom(sub)
	if want == "free" {
		n := rapid.IntRange(1, 12).Draw(t, "n")
		ops := make([]c15BOp, n)
		for i := range ops {
			ops[i] = c15BOp{Del: rapid.Bool().Draw(t, "del"), K: subGen.Draw(t, "k"), V: valGen.Draw(t, "v")}
		}
		return ops
	}
	max := 12
	if want == "failing" {
		max = 11
	}
	nAdd := rapid.IntRange(0, 7).Draw(t, "nAdd")
	var ops []c15BOp
	for i := 0; i < nAdd; i++ {
		ops = append(ops, c15BOp{K: subGen.Draw(t, "ak"), V: valGen.Draw(t, "av")})
	}
	pool := c15Pool(model, sub, ops)
	nDel := rapid.IntRange(0, max-nAdd).Draw(t, "nDel")
	if nAdd == 0 && nDel == 0 && want == "valid" {
		nDel = 1
	}
	for i := 0; i < nDel; i++ {
		var cand []string
		for _, k := range sub {
			if len(pool[k]) > 0 {
				cand = append(cand, k)
			}
		}
		if len(cand) == 0 {
			break
		}
		k := rapid.SampledFrom(cand).Draw(t, "dk")
		j := rapid.IntRange(0, len(pool[k])-1).Draw(t, "dj")
		ops = append(ops, c15BOp{Del: true, K: k, V: pool[k][j]})
		pool[k] = c15RemoveAt(pool[k], j)
	}
	if want == "failing" {
		// one deletion that has nothing to delete: every (key, value) whose
		// remaining count is zero qualifies (absent key, absent value, or one
		// deletion more than there are copies).
		k := subGen.Draw(t, "badKey")
		if rapid.IntRange(0, 3).Draw(t, "badAnyKey") == 0 {
			k = keyGen.Draw(t, "badKey2")
			if _, ok := pool[k]; !ok {
				pool[k] = append([]string(nil), model[k]...)
			}
		}
		var cand []string
		for _, v := range c15Values {
			if c15Index(pool[k], v) < 0 {
				cand = append(cand, v)
			}
		}
		if len(cand) == 0 {
			t.Skip("every value present")
		}
		ops = append(ops, c15BOp{Del: true, K: k, V: rapid.SampledFrom(cand).Draw(t, "badVal")})
	}
	if len(ops) == 0 {
		ops = append(ops, c15BOp{K: subGen.Draw(t, "ak"), V: valGen.Draw(t, "av")})
	}
	return rapid.Permutation(ops).Draw(t, "order")
}

// ---- exhaustive part ------------------------------------------------------------

type c15Abort struct{}

// c15Catch stops a run at the first violation without ending the test, so the
// exhaustive driver can re-run a smaller self-contained case.
type c15Catch struct{ msg string }

func (c *c15Catch) Fatalf(format string, a ...interface{}) {
	c.msg = fmt.Sprintf(format, a...)
	panic(c15Abort{})
}

func c15Guard(f func()) (aborted bool) {
	defer func() {
		if r := recover(); r != nil {
			if _, ok := r.(c15Abort); ok {
				aborted = true
				return
			}
			panic(r)
		}
	}()
	f()
	return false
}

func c15RunOps(t kit.Fataler, stage string, keys []string, ops []c15Op) {
	s := c15NewStore(t, stage, keys)
	defer s.cleanup()
	kit.Case(c15Case{Stage: stage, Keys: keys, Ops: ops})
	for _, op := range ops {
		s.apply(t, op)
	}
}

func c15Exhaustive(t *testing.T, length int, keys, values []string) {
	alphabet := []c15Op{}
	for _, k := range keys {
		for _, v := range values {
			alphabet = append(alphabet, c15Op{Kind: "add", K: k, V: v}, c15Op{Kind: "del", K: k, V: v})
		}
	}
	total := 1
	for i := 0; i < length; i++ {
		total *= len(alphabet)
	}
	readKeys := append(append([]string(nil), keys...), "b")
	stage := fmt.Sprintf("exhaustive-len%d", length)
	s := c15NewStore(t, stage, readKeys)
	defer func() { s.cleanup() }()
	var cnt, nt int64
	var hist []c15Op
	catch := &c15Catch{}
	inBlock := 0
	for idx := kit.Shard(); idx < total; idx += kit.NShards() {
		hist = hist[:0]
		for i, x := 0, idx; i < length; i++ {
			hist = append(hist, alphabet[x%len(alphabet)])
			x /= len(alphabet)
		}
		var wipe []c15Op
		s.nontriv = false
		aborted := c15Guard(func() {
			for _, op := range hist {
				s.apply(catch, op)
			}
			for _, k := range s.presentKeys() {
				for _, v := range s.model[k] {
					wipe = append(wipe, c15Op{Kind: "del", K: k, V: v})
				}
			}
			nontriv := s.nontriv
			for _, op := range wipe {
				s.apply(catch, op)
			}
			s.nontriv = nontriv
			inBlock++
			if inBlock == 500 || idx+kit.NShards() >= total {
				s.apply(catch, c15Op{Kind: "reopen", Mode: "updater"})
				inBlock = 0
				s.ops = s.ops[:0]
			}
		})
		if aborted {
			// smallest self-contained case first: this history alone on a
			// fresh store, followed by wipe and close; then the whole block.
			block := append([]c15Op(nil), s.ops...)
			s.cleanup()
			single := append(append(append([]c15Op(nil), hist...), wipe...), c15Op{Kind: "close"})
			c15RunOps(t, stage, readKeys, single)
			c15RunOps(t, stage, readKeys, block)
			t.Fatalf("C15 exhaustive: violation not reproducible on a fresh store: %s", catch.msg)
		}
		cnt++
		if s.nontriv {
			nt++
		}
	}
	s.flushStats()
	kit.EvalN(cnt)
	kit.NonTrivialDistinct(nt)
	kit.ClassN(stage+"-histories", cnt)
	kit.SampleForce(c15Case{Stage: stage, Keys: readKeys, Ops: append([]c15Op(nil), hist...)})
}

// ---- test ---------------------------------------------------------------------

func TestC15(t *testing.T) {
	if f := kit.ReplayFile(); f != "" {
		var c c15Case
		kit.LoadReplay(t, f, &c)
		c15RunOps(t, c.Stage, c.Keys, c.Ops)
		kit.Eval()
		return
	}

	// (1) exhaustive: every history of single Add/Del over 2 keys x 3 values.
	length := kit.Pick(4, 5)
	t0 := time.Now()
	c15Exhaustive(t, length, []string{"a", "ab"}, []string{"", "x", "xy"})
	c15Exhaustive(t, length, []string{"a", "ab"}, []string{"xy", "xz", "x"})
	kit.SetExhaustive()
	t.Logf("exhaustive part: %v", time.Since(t0)) // informational only

	// (2) rapid state machine, one store per case.
	keyGen := rapid.SampledFrom(c15Keys)
	valGen := rapid.SampledFrom(c15Values)
	kit.SetRapid(kit.N(320, 2000))
	rapid.Check(t, kit.Prop(c15ID, func(t *rapid.T) {
		s := c15NewStore(t, "rapid", c15Keys)
		defer s.cleanup()
		kit.Case(s.caseObj())
		step := func(op c15Op) {
			s.apply(t, op)
			kit.Case(s.caseObj())
		}
		pickPresent := func(t *rapid.T) string {
			p := s.presentKeys()
			if len(p) == 0 {
				t.Skip("store empty")
			}
			return rapid.SampledFrom(p).Draw(t, "presentKey")
		}
		add := func(t *rapid.T) {
			step(c15Op{Kind: "add", K: keyGen.Draw(t, "k"), V: valGen.Draw(t, "v")})
		}
		addPresent := func(t *rapid.T) {
			// grow an existing list, half of the time with a value it already has
			k := pickPresent(t)
			v := valGen.Draw(t, "v")
			if rapid.Bool().Draw(t, "dup") {
				v = rapid.SampledFrom(s.model[k]).Draw(t, "dupValue")
			}
			step(c15Op{Kind: "add", K: k, V: v})
		}
		delPresent := func(t *rapid.T) {
			k := pickPresent(t)
			i := rapid.IntRange(0, len(s.model[k])-1).Draw(t, "pos")
			step(c15Op{Kind: "del", K: k, V: s.model[k][i]})
		}
		delLast := func(t *rapid.T) {
			k := pickPresent(t)
			step(c15Op{Kind: "del", K: k, V: s.model[k][len(s.model[k])-1]})
		}
		delAbsent := func(t *rapid.T) {
			k := keyGen.Draw(t, "k")
			var cand []string
			for _, v := range c15Values {
				if c15Index(s.model[k], v) < 0 {
					cand = append(cand, v)
				}
			}
			if len(cand) == 0 {
				t.Skip("every value present")
			}
			step(c15Op{Kind: "del", K: k, V: rapid.SampledFrom(cand).Draw(t, "v")})
		}
		batch := func(want string) func(*rapid.T) {
			return func(t *rapid.T) {
				step(c15Op{Kind: "batch", Batch: c15GenBatch(t, s.model, want)})
			}
		}
		// duplicated entries are weights: the two expensive actions (reopen,
		// backup: 60-120 ms each) make up 2 of 26.
		t.Repeat(map[string]func(*rapid.T){
			"add":           add,
			"add2":          add,
			"addPresent":    addPresent,
			"addPresent2":   addPresent,
			"addPresent3":   addPresent,
			"addPresent4":   addPresent,
			"delPresent":    delPresent,
			"delPresent2":   delPresent,
			"delPresent3":   delPresent,
			"delPresent4":   delPresent,
			"delLast":       delLast,
			"delLast2":      delLast,
			"delAbsent":     delAbsent,
			"delAbsent2":    delAbsent,
			"batchValid":    batch("valid"),
			"batchValid2":   batch("valid"),
			"batchValid3":   batch("valid"),
			"batchValid4":   batch("valid"),
			"batchValid5":   batch("valid"),
			"batchFailing":  batch("failing"),
			"batchFailing2": batch("failing"),
			"batchFailing3": batch("failing"),
			"batchFree":     batch("free"),
			"batchFree2":    batch("free"),
			"batchBig": func(t *rapid.T) {
				// one batch over more than 128 distinct keys (a second one in the same
				// case adds to keys that already exist, in the middle of the key order)
				n := rapid.IntRange(130, 190).Draw(t, "nbig")
				ops := make([]c15BOp, 0, n+4)
				for i := 0; i < n; i++ {
					ops = append(ops, c15BOp{K: fmt.Sprintf("bk%03d", i), V: valGen.Draw(t, "bv")})
				}
				for _, k := range s.presentKeys() {
					if len(ops) < n+4 && !strings.HasPrefix(k, "bk") {
						ops = append(ops, c15BOp{K: k, V: valGen.Draw(t, "bv2")})
					}
				}
				step(c15Op{Kind: "batch", Batch: ops})
			},
			"batchBig2": func(t *rapid.T) {
				n := rapid.IntRange(130, 160).Draw(t, "nbig")
				ops := make([]c15BOp, 0, n)
				for i := 0; i < n; i++ {
					ops = append(ops, c15BOp{K: fmt.Sprintf("bk%03d", (i*7)%200), V: valGen.Draw(t, "bv")})
				}
				step(c15Op{Kind: "batch", Batch: ops})
			},
			"reopen": func(t *rapid.T) {
				step(c15Op{Kind: "reopen", Mode: rapid.SampledFrom([]string{"updater", "rdb"}).Draw(t, "mode")})
			},
			"backup": func(t *rapid.T) {
				step(c15Op{Kind: "backup", Mode: rapid.SampledFrom([]string{"stay", "switch"}).Draw(t, "mode")})
			},
		})
		// every case ends with a close and a full inspection of the files
		step(c15Op{Kind: "close"})
		s.flushStats()
		if s.nontriv {
			kit.NonTrivial(strings.Join(s.tokens, " "))
			kit.Class("case:nontrivial")
		} else {
			kit.Class("case:trivial")
		}
		kit.Class("case:steps-" + sizeClass(len(s.ops)))
		kit.Sample(s.caseObj())
	}))
}
