package kit

import (
	"fmt"
	"sort"
	"strings"

	"pgregory.net/rapid"
)

// Line-level generator: one structured data line of any of the 17 kinds with
// every optional field present or absent, explicit zero values, escaped bytes,
// wildcard owners, locations, all address notations, and a rendering style
// (separator, escape notation, raw bytes where the format allows them,
// trailing empty fields).  The structure is kit.Line; the rendering is
// RenderStyled (Line.Render has one fixed style and no '!' lines).

// LineStyle is how a Line is written.
type LineStyle struct {
	Colon        bool   `json:"colon,omitempty"`    // ':' is the separator
	Esc          int    `json:"esc,omitempty"`      // 0 octal, 1 \xNN, 2 short escapes (\t \n \\ ...) else octal, 3 alternating
	Raw          bool   `json:"raw,omitempty"`      // write space, bytes >= 0x80 and (after the first field) the other separator unescaped
	KeepTrailing bool   `json:"trailing,omitempty"` // keep trailing empty fields
	Stamp        string `json:"stamp,omitempty"`    // content of the unused (tinydns timestamp) field
}

// AllKinds are the 17 line type characters.
const AllKinds = "Z.&+=@SC^':BHM8%!"

var shortEsc = map[byte]string{7: `\a`, 8: `\b`, 12: `\f`, 10: `\n`, 13: `\r`, 9: `\t`, 11: `\v`, '\\': `\\`}

// qStyled quotes one field; idx is the field index (the other separator may
// appear raw only after the first separator of the line has been seen).
func qStyled(b []byte, st LineStyle, idx int) (string, bool) {
	var sb strings.Builder
	escaped := false
	sep, other := byte(','), byte(':')
	if st.Colon {
		sep, other = ':', ','
	}
	for i, c := range b {
		raw := c > 0x20 && c < 0x7f && c != '\\' && c != sep && c != other
		if !raw && st.Raw && (c == 0x20 || c >= 0x80 || (c == other && idx > 0)) {
			raw = true
		}
		if raw {
			sb.WriteByte(c)
			continue
		}
		escaped = true
		mode := st.Esc
		if mode == 3 {
			mode = i % 3
		}
		switch {
		case mode == 1:
			fmt.Fprintf(&sb, "\\x%02x", c)
		case mode == 2 && shortEsc[c] != "":
			sb.WriteString(shortEsc[c])
		default:
			fmt.Fprintf(&sb, "\\%03o", c)
		}
	}
	return sb.String(), escaped
}

// RenderStyled writes the line in the given style.  It also reports whether
// any byte had to be escaped.
func RenderStyled(l *Line, st LineStyle) (string, bool) {
	anyEsc := false
	idx := 0
	q := func(b []byte) string {
		s, e := qStyled(b, st, idx)
		if e {
			anyEsc = true
		}
		return s
	}
	name := func() string {
		s := q([]byte(l.Owner))
		if l.Wild {
			s = "*." + s
		}
		return s
	}
	// fields are produced in order so that idx is right for each
	var f []string
	add := func(s string) { f = append(f, s); idx++ }
	qs := func(s string) string { return q([]byte(s)) }
	switch l.K {
	case 'Z':
		add(name())
		add(qs(l.X))
		add(qs(l.Adm))
		for i := 0; i < 5; i++ {
			add(numf(l.N[i]))
		}
		add(numf(l.TTL))
		add(st.Stamp)
		add(qs(l.Loc))
	case '.', '&':
		add(name())
		add(l.IP)
		add(qs(l.X))
		add(numf(l.TTL))
		add(st.Stamp)
		add(qs(l.Loc))
	case '+':
		add(name())
		add(l.IP)
		add(numf(l.TTL))
		add(st.Stamp)
		add(qs(l.Loc))
		add(numf(l.N[0]))
	case '=':
		add(name())
		add(l.IP)
		add(numf(l.TTL))
		add(st.Stamp)
		add(qs(l.Loc))
	case '@':
		add(name())
		add(l.IP)
		add(qs(l.X))
		add(numf(l.N[0]))
		add(numf(l.TTL))
		add(st.Stamp)
		add(qs(l.Loc))
	case 'S':
		add(name())
		add(l.IP)
		add(qs(l.X))
		add(numf(l.N[0]))
		add(numf(l.N[1]))
		add(numf(l.N[2]))
		add(numf(l.TTL))
		add(st.Stamp)
		add(qs(l.Loc))
	case 'C', '^':
		add(name())
		add(qs(l.X))
		add(numf(l.TTL))
		add(st.Stamp)
		add(qs(l.Loc))
	case '\'':
		add(name())
		add(q(l.Text))
		add(numf(l.TTL))
		add(st.Stamp)
		add(qs(l.Loc))
	case ':':
		add(name())
		add(fmt.Sprintf("%d", l.RType))
		add(q(l.Text))
		add(numf(l.TTL))
		add(st.Stamp)
		add(qs(l.Loc))
	case 'B', 'H':
		add(name())
		if l.X == "." {
			add(".")
		} else {
			add(qs(l.X))
		}
		add(numf(l.TTL))
		add(qs(l.Loc))
		add(numf(l.N[0]))
		add(SvcParamSamples[l.Params].Text)
	case 'M', '8':
		add(name())
		add(qs(l.MapID))
	case '%':
		add(qs(l.Loc))
		add(l.CIDR)
		add(qs(l.MapID))
	case '!':
		add(qs(l.MapID))
		add(l.IP)
		add(numf(l.N[0]))
		add(qs(l.Loc))
	default:
		panic(fmt.Sprintf("RenderStyled: unknown line kind %q", l.K))
	}
	if !st.KeepTrailing {
		for len(f) > 1 && f[len(f)-1] == "" {
			f = f[:len(f)-1]
		}
	}
	sep := ","
	if st.Colon {
		sep = ":"
	}
	return string(l.K) + strings.Join(f, sep), anyEsc
}

// colonSafe reports whether the line may use ':' as separator: no unquoted
// field (addresses, CIDR, parameters) may contain a colon.
func colonSafe(l *Line) bool {
	if strings.Contains(l.IP, ":") || strings.Contains(l.CIDR, ":") {
		return false
	}
	if (l.K == 'B' || l.K == 'H') && strings.ContainsAny(SvcParamSamples[l.Params].Text, ":,") {
		return false
	}
	return true
}

var (
	lineLabels = []string{"a", "b", "ab", "www", "x-1", "_s", "0", "A", "Ab"}
	oddLabels  = []string{"x,y", "c:d", "sp ace", "\x00", "\xff\xfe", "back\\slash", "t\tb", "q\"q", "\xc3\xa9", "*", strings.Repeat("k", 63), "a\nb", ",", ":", "\\"}
	lineTLDs   = []string{"com", "org", "example.com", "Example.NET"}
	// LineLocs are two-byte location ids; several need escapes.
	LineLocs = []string{"l1", "l2", "\x00,", "\x00:", "\x00\\", "\x00\x00", "\xff\xfe", "a ", "\n\t", "\x00\x01"}
	// LineMaps are map ids (shorter ids are zero padded by the parser).
	LineMaps = []string{"m1", "m2", "\x00\x07", "a,", ":b", "\\\\", "m", "", "\x00\x00"}
	lineV4   = []string{"192.0.2.1", "10.1.2.3", "0.0.0.0", "255.255.255.255", "203.0.113.255"}
	lineV6   = []string{"2001:db8::10", "fd00::1", "::1", "::", "2001:DB8::A", "2001:0db8:0000:0000:0000:0000:0000:0001", "ffff:ffff:ffff:ffff:ffff:ffff:ffff:ffff", "::1:0:0:0", "::1.2.3.4"}
	lineV4m  = []string{"::ffff:192.0.2.1", "::ffff:c000:201", "::ffff:0.0.0.0", "::FFFF:10.1.2.3", "0:0:0:0:0:ffff:a01:203"}
	ttlVals  = []int64{0, 1, 300, 2560, 86400, 259200, 2147483648, 4294967295}
	u16Vals  = []int64{0, 1, 10, 443, 65535}
	lineText = []byte("abc ,:\\\"\x00\xff=;\n\t'*.\xc3\xa9")
	// LineCIDRs are the subnet notations of '%' lines: CIDR with and without
	// host bits, bare addresses, the empty field, IPv4-mapped notations, nested
	// and back-to-back prefixes, the first and last addresses of each family.
	LineCIDRs = []string{
		"", "0.0.0.0/0", "10.0.0.0/8", "10.0.0.0/16", "10.0.0.0/24", "10.0.1.0/24", "10.0.0.1", "10.0.0.1/32", "10.1.2.3/8",
		"192.0.2.0/25", "192.0.2.128/25", "192.0.2.7", "197.241.0.0/23", "255.255.255.255/32", "255.0.0.0/8", "128.0.0.0/1", "0.0.0.0/1",
		"::/0", "2001:db8::/32", "2001:db8::/48", "2001:db8:0:1::/64", "2001:db8::1", "2001:db8::2/128", "2001:DB8:1::1/48",
		"ffff:ffff:ffff:ffff:ffff:ffff:ffff:ffff/128", "ffff::/16", "8000::/1",
		"::ffff:10.0.0.0/104", "::ffff:10.0.0.1", "::ffff:192.0.2.0/121", "::ffff:0:0/96", "::fffe:0:0/96", "::1:0:0:0/96", "::1:0:0:0/80",
	}
)

// LineGen draws lines.  Known reports shapes that must be kept out because
// they are listed known findings (the generator then replaces the shape and
// counts the exclusion).
type LineGen struct {
	T     *rapid.T
	Known func(key string) bool
	feats map[string]bool
}

func (g *LineGen) feat(s string) { g.feats[s] = true }

func (g *LineGen) known(key string) bool {
	if g.Known != nil && g.Known(key) {
		Excluded(key)
		return true
	}
	return false
}

func (g *LineGen) label(tag string) string {
	if rapid.IntRange(0, 5).Draw(g.T, tag+"-odd") == 5 {
		return rapid.SampledFrom(oddLabels).Draw(g.T, tag+"-oddv")
	}
	return rapid.SampledFrom(lineLabels).Draw(g.T, tag)
}

// name draws a domain name as written (may end in a dot, may be the root).
func (g *LineGen) name(tag string, minLabels int) string {
	if minLabels == 0 && rapid.IntRange(0, 11).Draw(g.T, tag+"-root") == 11 {
		g.feat("root-name")
		return rapid.SampledFrom([]string{"", "."}).Draw(g.T, tag+"-rootv")
	}
	n := rapid.IntRange(0, 3).Draw(g.T, tag+"-nl")
	var ls []string
	for i := 0; i < n; i++ {
		ls = append(ls, g.label(tag+"-l"))
	}
	ls = append(ls, rapid.SampledFrom(lineTLDs).Draw(g.T, tag+"-tld"))
	s := strings.Join(ls, ".")
	if rapid.IntRange(0, 7).Draw(g.T, tag+"-dot") == 7 {
		g.feat("trailing-dot")
		s += "."
	}
	return s
}

func (g *LineGen) loc(tag string) string {
	if rapid.IntRange(0, 2).Draw(g.T, tag+"-has") != 2 {
		return ""
	}
	g.feat("loc")
	return rapid.SampledFrom(LineLocs).Draw(g.T, tag)
}

func (g *LineGen) ttl(tag string) int64 {
	switch rapid.IntRange(0, 3).Draw(g.T, tag+"-m") {
	case 0:
		g.feat("omitted")
		return -1
	case 1:
		g.feat("zero")
		return 0
	default:
		return rapid.SampledFrom(ttlVals).Draw(g.T, tag)
	}
}

func (g *LineGen) num(tag string, vals []int64) int64 {
	switch rapid.IntRange(0, 3).Draw(g.T, tag+"-m") {
	case 0:
		g.feat("omitted")
		return -1
	case 1:
		g.feat("zero")
		return 0
	default:
		return rapid.SampledFrom(vals).Draw(g.T, tag)
	}
}

// ip draws an address; allowEmpty adds the omitted address.
func (g *LineGen) ip(tag string, allowEmpty bool) string {
	lo := 0
	if !allowEmpty {
		lo = 1
	}
	switch rapid.IntRange(lo, 6).Draw(g.T, tag+"-fam") {
	case 0:
		g.feat("omitted")
		return ""
	case 1, 2:
		return rapid.SampledFrom(lineV4).Draw(g.T, tag+"-4")
	case 3, 4:
		g.feat("v6")
		return rapid.SampledFrom(lineV6).Draw(g.T, tag+"-6")
	default:
		g.feat("v4mapped")
		return rapid.SampledFrom(lineV4m).Draw(g.T, tag+"-4m")
	}
}

// server draws the x field of . & @ S lines.
func (g *LineGen) server(tag, kind, owner string) string {
	var x string
	switch rapid.IntRange(0, 5).Draw(g.T, tag+"-m") {
	case 0, 1:
		g.feat("short-x")
		x = rapid.SampledFrom([]string{"a", "b", "ns1", "x,y", ""}).Draw(g.T, tag+"-short")
	case 2:
		x = rapid.SampledFrom([]string{"ns.", "localhost.", "A.", "."}).Draw(g.T, tag+"-single")
		if x == "." {
			g.feat("root-name") // the null MX / "no such service" target
			return x
		}
	default:
		x = g.name(tag+"-fq", 1)
	}
	// the name the line declares
	final := x
	if !strings.Contains(x, ".") {
		final = x + "." + kind + "." + owner
	}
	nl := 0
	for _, l := range strings.Split(final, ".") {
		if l != "" {
			nl++
		}
	}
	if nl == 1 {
		if g.known("single-label-server-name") {
			return "ns1.example.org"
		}
		g.feat("single-label-x")
	}
	if nl == 0 {
		return "ns1.example.org" // a server name made only of dots is not well-formed
	}
	return x
}

func (g *LineGen) text(tag string) []byte {
	n := rapid.SampledFrom([]int{0, 1, 2, 5, 17, 127, 128, 255, 300}).Draw(g.T, tag+"-len")
	if n <= 17 {
		return []byte(string(rapid.SliceOfN(rapid.SampledFrom(lineText), n, n).Draw(g.T, tag)))
	}
	off := rapid.IntRange(0, len(lineText)-1).Draw(g.T, tag+"-off")
	b := make([]byte, n)
	for i := range b {
		b[i] = lineText[(i*7+off)%len(lineText)]
	}
	return b
}

// Draw draws one line of one of the given kinds together with its style, its
// text and the sorted list of non-default features it uses.
func (g *LineGen) Draw(kinds string) (Line, LineStyle, string, []string) {
	g.feats = map[string]bool{}
	t := g.T
	k := rapid.SampledFrom([]byte(kinds)).Draw(t, "kind")
	none := [5]int64{-1, -1, -1, -1, -1}
	l := Line{K: k, TTL: -1, N: none}
	wildOK := strings.IndexByte("+=C'BHM8", k) >= 0
	if k != '%' && k != '!' {
		l.Owner = g.name("own", 0)
		if wildOK && rapid.IntRange(0, 3).Draw(t, "wild") == 3 {
			l.Wild = true
		}
		if wildOK && !l.Wild && strings.HasPrefix(l.Owner, "*.") {
			// a leading "*" label is how a wildcard owner is written
			l.Wild, l.Owner = true, l.Owner[2:]
		}
		if l.Wild {
			g.feat("wildcard")
		}
	}
	switch k {
	case 'Z':
		l.X, l.Adm = g.name("mname", 0), g.name("rname", 0)
		l.N[0] = g.num("serial", []int64{1, 2023010101, 4294967295})
		if l.N[0] == 0 {
			if g.known("soa-explicit-serial-zero") {
				l.N[0] = 1
			} else {
				g.feat("serial-zero")
			}
		}
		l.N[1], l.N[2] = g.num("ref", []int64{7200, 16384}), g.num("ret", []int64{1800, 2048})
		l.N[3], l.N[4] = g.num("exp", []int64{604800, 4294967295}), g.num("min", []int64{120, 2560})
		l.TTL, l.Loc = g.ttl("ttl"), g.loc("loc")
	case '.', '&':
		l.IP = g.ip("ip", true)
		l.X = g.server("x", "ns", l.Owner)
		l.TTL, l.Loc = g.ttl("ttl"), g.loc("loc")
	case '+':
		l.IP = g.ip("ip", false)
		l.N[0] = g.num("weight", []int64{1, 2, 1000, 65536, 4294967295})
		l.TTL, l.Loc = g.ttl("ttl"), g.loc("loc")
	case '=':
		l.IP = g.ip("ip", false)
		l.TTL, l.Loc = g.ttl("ttl"), g.loc("loc")
	case '@':
		l.IP = g.ip("ip", true)
		l.X = g.server("x", "mx", l.Owner)
		l.N[0] = g.num("dist", u16Vals)
		l.TTL, l.Loc = g.ttl("ttl"), g.loc("loc")
	case 'S':
		l.IP = g.ip("ip", true)
		l.X = g.server("x", "srv", l.Owner)
		l.N[0], l.N[1], l.N[2] = g.num("port", u16Vals), g.num("pri", u16Vals), g.num("sw", u16Vals)
		l.TTL, l.Loc = g.ttl("ttl"), g.loc("loc")
	case 'C', '^':
		l.X = g.name("target", 0)
		l.TTL, l.Loc = g.ttl("ttl"), g.loc("loc")
	case '\'':
		l.Text = g.text("txt")
		l.TTL, l.Loc = g.ttl("ttl"), g.loc("loc")
	case ':':
		// also types that have a native line kind (TXT, MX, SRV, ...): a generic line may carry any type
		l.RType = uint16(rapid.SampledFrom([]int{13, 99, 257, 65280, 65535, 44, 16, 15, 33, 2, 12, 5, 6, 64, 65, 28, 1, 0, 255}).Draw(t, "rtype"))
		l.Text = g.text("rdata")
		l.TTL, l.Loc = g.ttl("ttl"), g.loc("loc")
	case 'B', 'H':
		if l.Wild && g.known("svcb-wildcard-owner") {
			l.Wild = false
			for strings.HasPrefix(l.Owner, "*.") {
				l.Owner = l.Owner[2:]
			}
			delete(g.feats, "wildcard")
		}
		if rapid.IntRange(0, 2).Draw(t, "tgt-root") == 2 {
			l.X = "."
		} else {
			l.X = g.name("target", 1)
		}
		if strings.HasPrefix(l.X, "*.") {
			// a target whose first label is "*"
			if g.known("svcb-target-star-label") {
				for strings.HasPrefix(l.X, "*.") {
					l.X = l.X[2:]
				}
				if l.X == "" {
					l.X = "."
				}
			} else {
				g.feat("star-target")
			}
		}
		l.N[0] = g.num("prio", []int64{1, 16, 65535})
		l.Params = rapid.IntRange(0, len(SvcParamSamples)-1).Draw(t, "params")
		if l.Params == 0 {
			g.feat("omitted")
		}
		l.TTL, l.Loc = g.ttl("ttl"), g.loc("loc")
	case 'M', '8':
		if l.Wild && strings.Trim(l.Owner, ".") == "" {
			if g.known("map-root-wildcard") {
				l.Wild = false
				l.Owner = "example.org"
				delete(g.feats, "wildcard")
			} else {
				g.feat("root-wildcard-map")
			}
		}
		l.MapID = rapid.SampledFrom(LineMaps).Draw(t, "map")
	case '%':
		l.Loc = rapid.SampledFrom(LineLocs).Draw(t, "loc")
		l.CIDR = rapid.SampledFrom(LineCIDRs).Draw(t, "cidr")
		l.MapID = rapid.SampledFrom(LineMaps).Draw(t, "map")
		switch {
		case l.CIDR == "":
			g.feat("omitted")
		case strings.HasPrefix(strings.ToLower(l.CIDR), "::ffff:"):
			g.feat("v4mapped")
		case strings.Contains(l.CIDR, ":"):
			g.feat("v6")
		}
		if l.CIDR != "" && !strings.Contains(l.CIDR, "/") {
			g.feat("bare-ip")
		}
	case '!':
		l.MapID = rapid.SampledFrom(LineMaps).Draw(t, "map")
		l.IP = g.ip("ip", false)
		v4 := !strings.Contains(l.IP, ":") || g.feats["v4mapped"]
		if rapid.IntRange(0, 3).Draw(t, "null") == 3 {
			g.feat("omitted") // no location: the point ends a range
			if rapid.Bool().Draw(t, "null-mlen") {
				l.N[0] = int64(rapid.IntRange(0, 32).Draw(t, "mlen"))
			}
		} else {
			l.Loc = rapid.SampledFrom(LineLocs).Draw(t, "loc")
			g.feat("loc")
			max := 128
			if v4 {
				max = 32
			}
			l.N[0] = int64(rapid.SampledFrom([]int{0, 1, 8, 24, max - 1, max}).Draw(t, "mlen"))
			if l.N[0] == 0 {
				g.feat("zero")
			}
		}
	}
	st := LineStyle{
		Esc:          rapid.IntRange(0, 3).Draw(t, "esc"),
		Raw:          rapid.IntRange(0, 3).Draw(t, "rawbytes") == 3,
		KeepTrailing: rapid.IntRange(0, 5).Draw(t, "trailing") == 5,
	}
	if strings.IndexByte("Z.&+=@SC^':", k) >= 0 && rapid.IntRange(0, 7).Draw(t, "stamp") == 7 {
		st.Stamp = rapid.SampledFrom([]string{"0", "4000000000000000", "x"}).Draw(t, "stampv")
		g.feat("stamp-field")
	}
	if colonSafe(&l) && rapid.IntRange(0, 3).Draw(t, "colon") == 3 {
		st.Colon = true
		l.Colon = true
		g.feat("colon")
	}
	if st.KeepTrailing {
		g.feat("trailing-seps")
	}
	if l.Owner != lowerASCII(l.Owner) || l.X != lowerASCII(l.X) {
		g.feat("upper")
	}
	text, esc := RenderStyled(&l, st)
	if len(text) < 2 {
		// the compilers skip one-character lines: keep the separators
		st.KeepTrailing = true
		g.feat("trailing-seps")
		text, esc = RenderStyled(&l, st)
	}
	if esc {
		g.feat("escape")
	}
	if st.Raw && (strings.ContainsAny(text[1:], " ") || !isASCIIString(text)) {
		g.feat("raw-bytes")
	}
	fs := make([]string, 0, len(g.feats))
	for f := range g.feats {
		fs = append(fs, f)
	}
	sort.Strings(fs)
	return l, st, text, fs
}

func isASCIIString(s string) bool {
	for i := 0; i < len(s); i++ {
		if s[i] >= 0x80 {
			return false
		}
	}
	return true
}
