package kit

import (
	"encoding/json"
	"flag"
	"fmt"
	"hash/fnv"
	"os"
	"path/filepath"
	"runtime/debug"
	"sort"
	"strconv"
	"sync"
	"time"

	"pgregory.net/rapid"
)

// Bookkeeping shared by all property tests: how many cases were generated, how
// many distinct non-trivial ones, class histogram, a few samples, and failure
// (replay) files.  One process = one shard; the driver merges shard files.

type shardStats struct {
	Property               string           `json:"property"`
	Shard                  int              `json:"shard"`
	Seed                   int64            `json:"seed"`
	Tier                   string           `json:"tier"`
	Evaluations            int64            `json:"evaluations"`
	Sigs                   []uint64         `json:"sigs"`
	SigOverflow            int64            `json:"sig_overflow"`
	DistinctByConstruction int64            `json:"distinct_by_construction"`
	Classes                map[string]int64 `json:"classes"`
	Excluded               map[string]int64 `json:"excluded"`
	Samples                []interface{}    `json:"samples"`
	Notes                  []string         `json:"notes"`
	Known                  []string         `json:"known_seen"`
	Exhaustive             bool             `json:"exhaustive"`
	WallS                  float64          `json:"wall_s"`
}

const maxSigs = 400000

var (
	mu       sync.Mutex
	st       = shardStats{Classes: map[string]int64{}, Excluded: map[string]int64{}}
	sigSet   = map[uint64]struct{}{}
	started  = time.Now()
	curCase  interface{}
	knownSet map[string]string // key -> what (status known)
	phaseCtr uint64
)

// Env accessors -------------------------------------------------------------

func envInt(name string, def int64) int64 {
	if v := os.Getenv(name); v != "" {
		if n, err := strconv.ParseInt(v, 10, 64); err == nil {
			return n
		}
	}
	return def
}

// Tier returns "quick" or "thorough".
func Tier() string {
	if os.Getenv("VERIF_TIER") == "thorough" {
		return "thorough"
	}
	return "quick"
}

// Thorough reports whether the thorough tier is running.
func Thorough() bool { return Tier() == "thorough" }

// Seed is VERIF_SEED (default 1).
func Seed() int64 { return envInt("VERIF_SEED", 1) }

// Shard and NShards identify this process among its siblings.
func Shard() int   { return int(envInt("VERIF_SHARD", 0)) }
func NShards() int { return int(envInt("VERIF_NSHARDS", 1)) }

// OutDir is where shard stats and failure files go.
func OutDir() string {
	if d := os.Getenv("VERIF_OUT"); d != "" {
		return d
	}
	return os.TempDir()
}

// ReplayFile is set when the driver wants one concrete case re-executed.
func ReplayFile() string { return os.Getenv("VERIF_REPLAY") }

// N picks the case budget for the tier and divides it among shards.
func N(quick, thorough int) int {
	n := quick
	if Thorough() {
		n = thorough
	}
	if s := envInt("VERIF_SCALE_PCT", 100); s != 100 {
		n = int(int64(n) * s / 100)
	}
	per := (n + NShards() - 1) / NShards()
	if per < 1 {
		per = 1
	}
	return per
}

// Pick returns quick or thorough value without sharding.
func Pick(quick, thorough int) int {
	if Thorough() {
		return thorough
	}
	return quick
}

// RapidSeed derives a never-zero rapid seed from VERIF_SEED, shard and phase.
func RapidSeed(phase uint64) uint64 {
	s := uint64(Seed())*1000003 + uint64(Shard())*7919 + phase*104729
	s = s%(1<<62) + 1
	return s
}

// Check runs a rapid property with a deterministic seed and the given number
// of cases (already divided per shard by the caller, usually through N).
type TB interface {
	Helper()
	Name() string
	Logf(string, ...interface{})
	Fatalf(string, ...interface{})
}

// SetRapid configures rapid's flags for the next rapid.Check call.
func SetRapid(checks int) {
	phaseCtr++
	_ = flag.Set("rapid.checks", strconv.Itoa(checks))
	_ = flag.Set("rapid.seed", strconv.FormatUint(RapidSeed(phaseCtr), 10))
	_ = flag.Set("rapid.nofailfile", "true")
	if flag.Lookup("rapid.shrinktime") != nil {
		_ = flag.Set("rapid.shrinktime", "20s")
	}
}

// Prop wraps a property so that a panic inside it is turned into a failure
// file (with the current case) before rapid sees it.
func Prop(id string, f func(t *rapid.T)) func(t *rapid.T) {
	return func(t *rapid.T) {
		defer func() {
			if r := recover(); r != nil {
				if isRapidInternal(r) {
					panic(r)
				}
				writeFailure(id, "panic", fmt.Sprintf("panic: %v\n%s", r, debug.Stack()), CurrentCase())
				panic(r)
			}
		}()
		f(t)
		Eval()
	}
}

func isRapidInternal(r interface{}) bool {
	// rapid signals t.Fatalf / invalid data through its own panics; those are
	// already handled (Fail wrote the file) or are not failures at all.
	s := fmt.Sprintf("%T", r)
	return s == "rapid.stopTest" || s == "rapid.invalidData"
}

// Case records the case being executed (for panic reports).
func Case(c interface{}) {
	mu.Lock()
	curCase = c
	mu.Unlock()
}

// CurrentCase returns what Case stored last.
func CurrentCase() interface{} {
	mu.Lock()
	defer mu.Unlock()
	return curCase
}

// Eval counts one executed case.
func Eval() { EvalN(1) }

// EvalN counts n executed cases.
func EvalN(n int64) {
	mu.Lock()
	st.Evaluations += n
	mu.Unlock()
}

// Hash64 is the signature hash.
func Hash64(s string) uint64 {
	h := fnv.New64a()
	h.Write([]byte(s))
	return h.Sum64()
}

// NonTrivial records the signature of a non-trivial case; distinct signatures
// are what evidence reports as distinct_nontrivial.
func NonTrivial(sig string) {
	h := Hash64(sig)
	mu.Lock()
	if _, ok := sigSet[h]; !ok {
		if len(sigSet) < maxSigs {
			sigSet[h] = struct{}{}
		} else {
			st.SigOverflow++
		}
	}
	mu.Unlock()
}

// NonTrivialDistinct counts n non-trivial cases that are pairwise distinct by
// construction (enumeration), without storing their signatures.
func NonTrivialDistinct(n int64) {
	mu.Lock()
	st.DistinctByConstruction += n
	mu.Unlock()
}

// Class bumps a histogram bucket.
func Class(name string) { ClassN(name, 1) }

// ClassN bumps a histogram bucket by n.
func ClassN(name string, n int64) {
	mu.Lock()
	st.Classes[name] += n
	mu.Unlock()
}

// Excluded counts a case shape that was kept out of the campaign by
// construction because it is a listed known finding.
func Excluded(key string) {
	mu.Lock()
	st.Excluded[key]++
	mu.Unlock()
}

// Sample keeps a few cases for the evidence file (first 3, then sparse).
func Sample(v interface{}) {
	mu.Lock()
	defer mu.Unlock()
	n := st.Evaluations
	if len(st.Samples) < 3 || (len(st.Samples) < 8 && n&(n-1) == 0) {
		st.Samples = append(st.Samples, v)
	}
}

// SampleForce always keeps v (bounded at 12).
func SampleForce(v interface{}) {
	mu.Lock()
	if len(st.Samples) < 12 {
		st.Samples = append(st.Samples, v)
	}
	mu.Unlock()
}

// Note adds a free-text line to the evidence.
func Note(format string, a ...interface{}) {
	mu.Lock()
	if len(st.Notes) < 50 {
		st.Notes = append(st.Notes, fmt.Sprintf(format, a...))
	}
	mu.Unlock()
}

// SetExhaustive marks that a finite space was enumerated completely.
func SetExhaustive() {
	mu.Lock()
	st.Exhaustive = true
	mu.Unlock()
}

// Failure files -------------------------------------------------------------

// Failure is the self-contained description of one failing case.
type Failure struct {
	Property string      `json:"property"`
	Key      string      `json:"key"`
	Message  string      `json:"message"`
	Case     interface{} `json:"case"`
	Seed     int64       `json:"seed"`
	Shard    int         `json:"shard"`
	Tier     string      `json:"tier"`
}

func writeFailure(id, key, msg string, c interface{}) {
	f := Failure{Property: id, Key: key, Message: msg, Case: c, Seed: Seed(), Shard: Shard(), Tier: Tier()}
	b, err := json.MarshalIndent(f, "", " ")
	if err != nil {
		b, _ = json.MarshalIndent(Failure{Property: id, Key: key, Message: msg + " (case not serialisable: " + err.Error() + ")"}, "", " ")
	}
	name := filepath.Join(OutDir(), fmt.Sprintf("fail-%s-%d.json", id, Shard()))
	_ = os.WriteFile(name, b, 0o644)
}

// Fataler is the part of rapid.T / testing.T that Fail needs.
type Fataler interface {
	Fatalf(format string, args ...interface{})
}

// Fail records a violation (shape key + self-contained case) and stops the
// test.  During shrinking it is called repeatedly; the last call wins, which
// is the minimal case because rapid replays it at the end.
func Fail(t Fataler, id, key string, c interface{}, format string, a ...interface{}) {
	msg := fmt.Sprintf(format, a...)
	writeFailure(id, key, msg, c)
	t.Fatalf("VIOLATION %s key=%s: %s", id, key, msg)
}

// Known findings --------------------------------------------------------------

type knownEntry struct {
	Property string `json:"property"`
	Key      string `json:"key"`
	Status   string `json:"status"`
	Commit   string `json:"commit,omitempty"`
	What     string `json:"what"`
}

func loadKnown() {
	if knownSet != nil {
		return
	}
	knownSet = map[string]string{}
	p := os.Getenv("VERIF_KNOWN")
	if p == "" {
		p = "/verif/known_findings.json"
	}
	b, err := os.ReadFile(p)
	if err != nil {
		return
	}
	var doc struct {
		Findings []knownEntry `json:"findings"`
	}
	if json.Unmarshal(b, &doc) != nil {
		return
	}
	for _, e := range doc.Findings {
		if e.Status == "known" {
			knownSet[e.Property+"/"+e.Key] = e.What
		}
	}
}

// IsKnown reports whether (property, key) is a listed, unrepaired finding.
func IsKnown(id, key string) bool {
	mu.Lock()
	defer mu.Unlock()
	loadKnown()
	_, ok := knownSet[id+"/"+key]
	return ok
}

// KnownSeen records that the dedicated sub-run reproduced a known finding.
func KnownSeen(id, key string) {
	mu.Lock()
	st.Known = append(st.Known, id+"/"+key)
	mu.Unlock()
}

// Flush writes this shard's statistics; called from TestMain.
func Flush(property string) {
	if f := flag.Lookup("test.fuzzworker"); f != nil && f.Value.String() == "true" {
		return // native fuzz workers share one output directory; the driver counts their executions from the log
	}
	mu.Lock()
	defer mu.Unlock()
	st.Property = property
	st.Shard = Shard()
	st.Seed = Seed()
	st.Tier = Tier()
	st.WallS = time.Since(started).Seconds()
	st.Sigs = st.Sigs[:0]
	for h := range sigSet {
		st.Sigs = append(st.Sigs, h)
	}
	sort.Slice(st.Sigs, func(i, j int) bool { return st.Sigs[i] < st.Sigs[j] })
	b, _ := json.Marshal(st)
	id := Shard()
	if v := envInt("VERIF_STATS_ID", -1); v >= 0 {
		id = int(v)
	}
	_ = os.WriteFile(filepath.Join(OutDir(), fmt.Sprintf("stats-%d.json", id)), b, 0o644)
}

// LoadReplay reads the "case" member of a failure file into v.
func LoadReplay(t TB, path string, v interface{}) {
	b, err := os.ReadFile(path)
	if err != nil {
		t.Fatalf("replay: %v", err)
	}
	var f struct {
		Case json.RawMessage `json:"case"`
	}
	if err := json.Unmarshal(b, &f); err != nil {
		t.Fatalf("replay: %v", err)
	}
	if err := json.Unmarshal(f.Case, v); err != nil {
		t.Fatalf("replay: %v", err)
	}
}

// ClearFailure removes this shard's failure file (used after a dedicated
// known-finding sub-run, whose expected failure must not count).
func ClearFailure(id string) {
	_ = os.Remove(filepath.Join(OutDir(), fmt.Sprintf("fail-%s-%d.json", id, Shard())))
}
