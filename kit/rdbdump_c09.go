package kit

import (
	"encoding/binary"
	"fmt"

	rocksdb "github.com/facebookincubator/dns/dnsrocks/cgo-rocksdb"
)

// DumpRDBc09 opens a compiled RocksDB directory read-only through the
// exported cgo wrapper, walks every key with an iterator and returns
// key -> list of value chunks.  The value of a key is a concatenation of
// chunks, each prefixed with its length as a 4-byte little-endian word; the
// decoding is done here and does not call the repository's rdb package.
func DumpRDBc09(dir string) (map[string][]string, error) {
	opts := rocksdb.NewOptions()
	db, err := rocksdb.OpenDatabase(dir, true, false, opts)
	if err != nil {
		opts.FreeOptions()
		return nil, fmt.Errorf("open %s: %w", dir, err)
	}
	defer db.CloseDatabase()
	ro := rocksdb.NewDefaultReadOptions()
	defer ro.FreeReadOptions()
	it := db.CreateIterator(ro)
	defer it.FreeIterator()
	out := map[string][]string{}
	for it.SeekToFirst(); it.IsValid(); it.Next() {
		k := string(it.Key())
		v := it.Value()
		var chunks []string
		for i := 0; i < len(v); {
			if i+4 > len(v) {
				return nil, fmt.Errorf("key %x: truncated length word at offset %d of %d", k, i, len(v))
			}
			n := int(binary.LittleEndian.Uint32(v[i:]))
			i += 4
			if n < 0 || i+n > len(v) {
				return nil, fmt.Errorf("key %x: chunk of %d bytes at offset %d exceeds value of %d bytes", k, n, i, len(v))
			}
			chunks = append(chunks, string(v[i:i+n]))
			i += n
		}
		if _, dup := out[k]; dup {
			return nil, fmt.Errorf("key %x seen twice by the iterator", k)
		}
		out[k] = chunks
	}
	if err := it.GetError(); err != nil {
		return nil, err
	}
	return out, nil
}
