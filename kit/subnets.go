package kit

import (
	"fmt"
	"net"

	"pgregory.net/rapid"
)

// Adversarial subnet sets and clients for the longest-prefix-match checks
// (C03, C10): anchors at the edges of the address space, nested / adjacent /
// same-network-address prefixes, lengths biased to byte and family
// boundaries.

// SubnetSpec is one declared subnet in text form plus its parsed form.
type SubnetSpec struct {
	CIDR string `json:"cidr"`
	Loc  string `json:"loc"`
	Map  string `json:"map"`
}

var v4Anchors = []string{"0.0.0.0", "255.255.255.255", "10.0.0.0", "10.0.0.1", "10.1.2.3", "127.255.255.255", "128.0.0.0", "192.0.2.7", "10.0.1.0", "9.255.255.255"}
var v6Anchors = []string{"::", "ffff:ffff:ffff:ffff:ffff:ffff:ffff:ffff", "fc00::", "2000::", "fdff:ffff:ffff:ffff:ffff:ffff:ffff:ffff", "2001:db8::", "2001:db8::1", "2001:db8:0:1::", "::1", "0:0:0:0:1::", "0:0:0:0:0:fffe:ffff:ffff", "8000::", "2001:db7:ffff:ffff:ffff:ffff:ffff:ffff", "fe80::1"}
var v4Lens = []int{0, 1, 7, 8, 9, 15, 16, 17, 23, 24, 25, 30, 31, 32}
var v6Lens = []int{0, 1, 3, 7, 8, 9, 15, 16, 32, 47, 48, 56, 63, 64, 65, 80, 95, 96, 97, 112, 127, 128}

func maskIP(ip net.IP, n int) net.IP {
	out := make(net.IP, len(ip))
	copy(out, ip)
	for i := n; i < len(ip)*8; i++ {
		out[i/8] &^= 1 << (7 - uint(i%8))
	}
	return out
}

// SubnetGenOpts excludes shapes that are listed known findings.
type SubnetGenOpts struct {
	NoZeroNetNonDefault bool // no ::/N or 0.0.0.0/N with N > 0
	NoV6Default         bool
	BothDefaultsOrNone  bool // never a default route for one family only
	NoShortV6Zero       bool // no IPv6-family subnet covering ::ffff:0:0/96 (i.e. ::/N, N<=96)
}

// GenSubnets draws a set of subnets for the given map ids.
func GenSubnets(t *rapid.T, maps []string, o SubnetGenOpts) []SubnetSpec {
	var out []SubnetSpec
	seen := map[string]bool{}
	add := func(m, cidr, loc string) {
		ip, n, _, ok := ParseSubnet(cidr)
		if !ok {
			return
		}
		canon := fmt.Sprintf("%s|%s/%d", m, ip, n)
		if seen[canon] {
			return
		}
		zero := ip.Equal(net.ParseIP("::")) || ip.Equal(net.ParseIP("::ffff:0.0.0.0"))
		isV4 := ip.Equal(net.ParseIP("::ffff:0.0.0.0"))
		if zero && o.NoZeroNetNonDefault && !((isV4 && n == 96) || (!isV4 && n == 0)) {
			Excluded("zero-network-non-default-subnet")
			return
		}
		seen[canon] = true
		out = append(out, SubnetSpec{CIDR: cidr, Loc: loc, Map: m})
	}
	locs := []string{"l1", "l2", "l3", "\x00,"}
	for _, m := range maps {
		n := rapid.IntRange(0, 7).Draw(t, "nsub")
		for i := 0; i < n; i++ {
			loc := rapid.SampledFrom(locs).Draw(t, "loc")
			if rapid.Bool().Draw(t, "v6") {
				a := net.ParseIP(rapid.SampledFrom(v6Anchors).Draw(t, "a6")).To16()
				l := rapid.SampledFrom(v6Lens).Draw(t, "l6")
				add(m, fmt.Sprintf("%s/%d", maskIP(a, l), l), loc)
				if rapid.IntRange(0, 2).Draw(t, "nest6") == 0 {
					l2 := rapid.SampledFrom(v6Lens).Draw(t, "l6b")
					add(m, fmt.Sprintf("%s/%d", maskIP(a, l2), l2), rapid.SampledFrom(locs).Draw(t, "loc6b"))
				}
			} else {
				a := net.ParseIP(rapid.SampledFrom(v4Anchors).Draw(t, "a4")).To4()
				l := rapid.SampledFrom(v4Lens).Draw(t, "l4")
				form := rapid.IntRange(0, 9).Draw(t, "form4")
				switch {
				case form == 0 && l == 32:
					add(m, a.String(), loc) // bare address
				case form == 1:
					// the same IPv4 subnet written in IPv6 notation
					add(m, fmt.Sprintf("::ffff:%s/%d", maskIP(a, l), l+96), loc)
				default:
					add(m, fmt.Sprintf("%s/%d", maskIP(a, l), l), loc)
				}
				if rapid.IntRange(0, 2).Draw(t, "nest4") == 0 {
					l2 := rapid.SampledFrom(v4Lens).Draw(t, "l4b")
					add(m, fmt.Sprintf("%s/%d", maskIP(a, l2), l2), rapid.SampledFrom(locs).Draw(t, "loc4b"))
				}
				if rapid.IntRange(0, 3).Draw(t, "adj4") == 0 && l > 0 && l <= 32 {
					// the adjacent block of the same size
					b := maskIP(a, l)
					b[(l-1)/8] ^= 1 << (7 - uint((l-1)%8))
					add(m, fmt.Sprintf("%s/%d", b, l), rapid.SampledFrom(locs).Draw(t, "loc4c"))
				}
			}
		}
		switch rapid.IntRange(0, 5).Draw(t, "defaults") {
		case 0:
			add(m, "0.0.0.0/0", "l1")
			add(m, "::/0", "l1")
		case 1:
			add(m, "0.0.0.0/0", "l2")
			add(m, "::/0", "l3")
		case 2:
			if !o.BothDefaultsOrNone {
				add(m, "0.0.0.0/0", "l2")
			}
		case 3:
			if !o.BothDefaultsOrNone && !o.NoV6Default {
				add(m, "::/0", "l3")
			}
		}
	}
	if o.NoShortV6Zero {
		var keep []SubnetSpec
		for _, s := range out {
			ip, n, v4, _ := ParseSubnet(s.CIDR)
			if !v4 && n <= 96 && containsPrefix(ip, n, net.ParseIP("::ffff:0.0.0.0").To16(), 96) && !(n == 0) {
				Excluded("v6-subnet-covering-v4-mapped-range")
				continue
			}
			keep = append(keep, s)
		}
		out = keep
	}
	return out
}

// LPMClient is a client block: address text, family (1/2) and prefix length
// in the family's own terms.
type LPMClient struct {
	Addr   string `json:"addr"`
	Family int    `json:"family"`
	Len    int    `json:"len"`
}

// To128 returns the 128-bit form.
func (c LPMClient) To128() (net.IP, int, bool) {
	ip := net.ParseIP(c.Addr)
	if c.Family == 1 {
		return ip.To4().To16(), c.Len + 96, true
	}
	return ip.To16(), c.Len, false
}

func addOne(ip net.IP, delta int) net.IP {
	out := make(net.IP, len(ip))
	copy(out, ip)
	for i := len(out) - 1; i >= 0; i-- {
		v := int(out[i]) + delta
		out[i] = byte(v)
		if v >= 0 && v <= 255 {
			break
		}
		if v < 0 {
			delta = -1
		} else {
			delta = 1
		}
	}
	return out
}

// GenLPMClient draws a client relative to the declared subnets: network
// address, last address, one before / after, inside, or an anchor; host
// clients (full length) and, when ecs is set, shorter source prefixes with
// the address masked to the source length (RFC 7871 form).
func GenLPMClient(t *rapid.T, subs []SubnetSpec, ecs bool) LPMClient {
	var ip net.IP
	fam := 2
	if len(subs) > 0 && rapid.IntRange(0, 4).Draw(t, "rel") != 0 {
		s := rapid.SampledFrom(subs).Draw(t, "sub")
		ip16, n, v4, _ := ParseSubnet(s.CIDR)
		first := maskIP(ip16, n)
		last := make(net.IP, 16)
		copy(last, first)
		for i := n; i < 128; i++ {
			last[i/8] |= 1 << (7 - uint(i%8))
		}
		switch rapid.IntRange(0, 5).Draw(t, "pos") {
		case 0:
			ip = first
		case 1:
			ip = last
		case 2:
			ip = addOne(first, -1)
		case 3:
			ip = addOne(last, 1)
		case 4:
			ip = addOne(first, 1)
		default:
			ip = make(net.IP, 16)
			copy(ip, first)
			for i := n; i < 128; i++ {
				if rapid.Bool().Draw(t, "bit") {
					ip[i/8] |= 1 << (7 - uint(i%8))
				}
			}
		}
		if v4 || IsV4Block(ip, 128) {
			fam = 1
		}
		if fam == 1 && !IsV4Block(ip, 128) {
			// stepped out of the IPv4 range: stay IPv4 by wrapping to an anchor
			ip = net.ParseIP("10.0.0.1").To16()
		}
	} else if rapid.Bool().Draw(t, "fam4") {
		fam = 1
		ip = net.ParseIP(rapid.SampledFrom(v4Anchors).Draw(t, "anchor4")).To16()
	} else {
		ip = net.ParseIP(rapid.SampledFrom(v6Anchors).Draw(t, "anchor6")).To16()
	}
	if fam == 2 && IsV4Block(ip, 128) {
		fam = 1
	}
	c := LPMClient{Family: fam}
	full := 128
	if fam == 1 {
		full = 32
	}
	c.Len = full
	if ecs && rapid.IntRange(0, 2).Draw(t, "short") != 0 {
		if fam == 1 {
			c.Len = rapid.SampledFrom([]int{0, 1, 8, 16, 20, 24, 25, 31, 32}).Draw(t, "src4")
		} else {
			c.Len = rapid.SampledFrom([]int{0, 1, 16, 32, 48, 56, 64, 96, 127, 128}).Draw(t, "src6")
		}
	}
	if fam == 1 {
		c.Addr = maskIP(ip.To4(), c.Len).String()
	} else {
		c.Addr = maskIP(ip, c.Len).String()
	}
	return c
}

// MaskIP16 masks a 16-byte address to n bits.
func MaskIP16(ip net.IP, n int) net.IP { return maskIP(ip.To16(), n) }
