package kit

import (
	"encoding/binary"
	"fmt"

	rocksdb "github.com/facebookincubator/dns/dnsrocks/cgo-rocksdb"
)

// DumpRDBc07 reads a whole RocksDB directory through the exported cgo binding
// (read-only open + iterator; none of dnsdata/rdb is involved) and decodes the
// stored multi-values itself: every value of the store is a concatenation of
// <4-byte little-endian length><chunk>.  The result maps key -> chunks in
// stored order.  A malformed chunk list is an error.
func DumpRDBc07(dir string) (map[string][]string, error) {
	opts := rocksdb.NewOptions()
	db, err := rocksdb.OpenDatabase(dir, true, false, opts)
	if err != nil {
		opts.FreeOptions()
		return nil, fmt.Errorf("read-only open of %s: %w", dir, err)
	}
	defer db.CloseDatabase() // frees opts as well
	ro := rocksdb.NewDefaultReadOptions()
	defer ro.FreeReadOptions()
	it := db.CreateIterator(ro)
	defer it.FreeIterator()
	out := map[string][]string{}
	var prev string
	first := true
	for it.SeekToFirst(); it.IsValid(); it.Next() {
		k := string(it.Key())
		v := it.Value()
		if !first && k <= prev {
			return nil, fmt.Errorf("iterator keys not strictly increasing: %q after %q", k, prev)
		}
		first, prev = false, k
		if len(v) == 0 {
			return nil, fmt.Errorf("key %q stored with an empty value", k)
		}
		var chunks []string
		for len(v) > 0 {
			if len(v) < 4 {
				return nil, fmt.Errorf("key %q: %d trailing bytes where a length word is expected", k, len(v))
			}
			n := int(binary.LittleEndian.Uint32(v))
			if n > len(v)-4 {
				return nil, fmt.Errorf("key %q: chunk length %d exceeds the remaining %d bytes", k, n, len(v)-4)
			}
			chunks = append(chunks, string(v[4:4+n]))
			v = v[4+n:]
		}
		out[k] = chunks
	}
	if err := it.GetError(); err != nil {
		return nil, fmt.Errorf("iterator: %w", err)
	}
	return out, nil
}
