package kit

import (
	"encoding/binary"
	"fmt"
	"sort"

	rocksdb "github.com/facebookincubator/dns/dnsrocks/cgo-rocksdb"
)

// Full dump of a RocksDB directory for C08, written against the exported
// cgo-rocksdb API only (read-only open + iterator).  The value codec
// (<4 byte little-endian length><chunk>...) is decoded here, not through
// rdb.ReadNextChunk, so that the dump is independent of the code under test.

// DumpRDBRawC08 returns key -> raw stored value.  The database must not be
// open for writing by anybody else (the updater has been closed, which also
// flushed the memtable: writes are done with the WAL disabled).
func DumpRDBRawC08(dir string) (map[string][]byte, error) {
	opt := rocksdb.NewOptions()
	db, err := rocksdb.OpenDatabase(dir, true, false, opt)
	if err != nil {
		opt.FreeOptions()
		return nil, err
	}
	ro := rocksdb.NewDefaultReadOptions()
	it := db.CreateIterator(ro)
	out := map[string][]byte{}
	for it.SeekToFirst(); it.IsValid(); it.Next() {
		out[string(it.Key())] = it.Value()
	}
	err = it.GetError()
	it.FreeIterator()
	ro.FreeReadOptions()
	db.CloseDatabase() // frees opt as well
	return out, err
}

// SplitChunksC08 decodes a stored value into its chunks.
func SplitChunksC08(v []byte) ([]string, error) {
	var out []string
	for len(v) > 0 {
		if len(v) < 4 {
			return out, fmt.Errorf("truncated length word (%d bytes left)", len(v))
		}
		n := int(binary.LittleEndian.Uint32(v))
		if n < 0 || 4+n > len(v) {
			return out, fmt.Errorf("chunk length %d exceeds the %d bytes left", n, len(v)-4)
		}
		out = append(out, string(v[4:4+n]))
		v = v[4+n:]
	}
	return out, nil
}

// ChunksOfRawC08 turns a raw dump into key -> sorted chunk list (a multiset).
func ChunksOfRawC08(raw map[string][]byte) (map[string][]string, error) {
	out := make(map[string][]string, len(raw))
	for k, v := range raw {
		c, err := SplitChunksC08(v)
		if err != nil {
			return nil, fmt.Errorf("key %q: %w", k, err)
		}
		sort.Strings(c) // an empty list (key stored with no value) is kept: it differs from an absent key
		out[k] = c
	}
	return out, nil
}

// DumpRDBc08 returns key -> multiset of value chunks (sorted).
func DumpRDBc08(dir string) (map[string][]string, error) {
	raw, err := DumpRDBRawC08(dir)
	if err != nil {
		return nil, err
	}
	return ChunksOfRawC08(raw)
}
