package props

import (
	"fmt"
	"os"
	"strings"

	"github.com/miekg/dns"
	"testing"

	"pgregory.net/rapid"

	"verif/kit"
)

// C01: served answers are exactly what the data file declares.

type c01Case struct {
	Text    string     `json:"text"`
	World   *kit.World `json:"world"`
	Backend string     `json:"backend"`
	Query   kit.Query  `json:"query"`
	Client  kit.Client `json:"client"`
	Loc     string     `json:"oracle_location"`
	Class   string     `json:"oracle_class"`
	Got     string     `json:"got,omitempty"`
}

var c01Focus = -1

type c01Q struct {
	q kit.Query
	c kit.Client
}

// c01Run executes the queries against the three backends and compares each
// response with the reference resolver.
func c01Run(t kit.Fataler, w *kit.World, qs []c01Q, record bool) {
	text := w.Text()
	served, cleanup, err := kit.ServeAll(text, w.Serial, kit.AllBackends, kit.DefaultCompile, kit.HandlerOpts{})
	if err != nil {
		kit.Fail(t, "C01", "compile-error", c01Case{Text: string(text), World: w}, "a well-formed file failed to compile or open: %v", err)
		return
	}
	defer cleanup()
	if c01Focus >= 0 {
		// while shrinking, look at the backend that failed first
		for i, s := range served {
			if int(s.Backend) == c01Focus {
				served[0], served[i] = served[i], served[0]
			}
		}
	}
	for _, x := range qs {
		lr := w.Locate(x.q.Name, x.c)
		e := w.Resolve(x.q, lr.Loc)
		if e.Undefined != "" {
			kit.Class("skipped:" + e.Undefined)
			continue
		}
		for _, s := range served {
			resp, _, err := kit.Ask(s.H, x.q, x.c)
			c := c01Case{Text: string(text), World: w, Backend: s.Backend.String(), Query: x.q, Client: x.c, Loc: fmt.Sprintf("%q", lr.Loc[:]), Class: e.Class, Got: kit.Brief(resp)}
			if err != nil {
				kit.Fail(t, "C01", "handler-error/"+s.Backend.String(), c, "handler returned an error: %v", err)
			}
			if key, msg := kit.CompareExpect(resp, x.q, e); key != "" {
				c01Focus = int(s.Backend)
				kit.Fail(t, "C01", key+"/"+e.Class+"/"+s.Backend.String(), c, "%s: %s %d from %s: %s; response: %s", s.Backend, x.q.Name, x.q.Type, x.c.Resolver, msg, kit.Brief(resp))
			}
			if record {
				locClass := "noloc"
				if lr.Loc != [2]byte{} {
					locClass = "loc"
					if lr.ViaECS {
						locClass = "loc-ecs"
					}
				}
				kit.Class("outcome:" + e.Class)
				if e.Class != "refused" {
					kit.NonTrivial(fmt.Sprintf("%s|%d|%s|%s|%v|", e.Class, x.q.Type, locClass, s.Backend, e.Wildcard) + string(text) + x.q.Name)
				}
			}
		}
	}
}

func TestC01(t *testing.T) {
	if f := kit.ReplayFile(); f != "" {
		var c c01Case
		kit.LoadReplay(t, f, &c)
		c01Run(t, c.World, []c01Q{{c.Query, c.Client}}, false)
		kit.Eval()
		return
	}
	if kit.Shard() == 0 {
		runRegressions(t, func(t kit.Fataler, w *kit.World, q kit.Query, c kit.Client) {
			c01Run(t, w, []c01Q{{q, c}}, true)
		})
	}
	if os.Getenv("VERIF_ONLY_REGRESS") != "" {
		return
	}
	if kit.Shard() == 3%kit.NShards() {
		// one large file through the bulk loader (several sorted buckets): every name
		// must serve all of its declared records
		c01Bulk(t)
		kit.Eval()
		kit.Class("bulk-builder-file")
		kit.NonTrivial("bulk-builder-file")
	}
	kit.SetRapid(kit.N(480, 12000))
	rapid.Check(t, kit.Prop("C01", func(t *rapid.T) {
		w := kit.GenWorld(t, kit.GenOpts{})
		names := kit.QueryNames(w)
		nq := rapid.IntRange(10, 40).Draw(t, "nq")
		qs := make([]c01Q, nq)
		for i := range qs {
			qs[i] = c01Q{kit.GenQuery(t, w, names), kit.GenClient(t)}
		}
		kit.Case(c01Case{Text: string(w.Text()), World: w})
		c01Run(t, w, qs, true)
		kit.ClassN("queries", int64(nq))
		kit.Sample(map[string]interface{}{"data": string(w.Text()), "first_query": qs[0].q, "client": qs[0].c})
	}))
}

type c01BulkCase struct {
	Names   int    `json:"names"`
	PerName int    `json:"records_per_name"`
	Backend string `json:"backend"`
	Name    string `json:"failing_name,omitempty"`
}

// c01Bulk: 5200 names x 7 TXT records (36400 records, i.e. more than one
// 30000-record bucket of the RocksDB bulk loader), compiled in builder mode with
// v1 and v2 keys; every name is asked and must return exactly its 7 records.
func c01Bulk(t kit.Fataler) {
	const names, per = 5200, 7
	var sb strings.Builder
	sb.WriteString(".big.example,,a\n")
	for i := 0; i < names; i++ {
		for j := 0; j < per; j++ {
			fmt.Fprintf(&sb, "'n%05d.big.example,t%d-%d,60\n", i, i, j)
		}
	}
	text := []byte(sb.String())
	for _, b := range []kit.Backend{kit.RDBv1, kit.RDBv2} {
		cs := c01BulkCase{Names: names, PerName: per, Backend: b.String()}
		dir := kit.Scratch("c01bulk")
		p, err := kit.Compile(text, 1, dir, b, kit.CompileOpts{Workers: 4, Builder: true})
		if err != nil {
			kit.Fail(t, "C01", "compile-error/bulk", cs, "builder compile: %v", err)
		}
		h, err := kit.OpenHandler(p, b, kit.HandlerOpts{})
		if err != nil {
			kit.Fail(t, "C01", "compile-error/bulk", cs, "open: %v", err)
		}
		for i := 0; i < names; i++ {
			name := fmt.Sprintf("n%05d.big.example.", i)
			resp, _, err := kit.Ask(h, kit.Query{Name: name, Type: 16, Class: 1, MaxAns: 1}, kit.Client{Resolver: "192.0.2.9"})
			want := map[string]bool{}
			for j := 0; j < per; j++ {
				want[fmt.Sprintf("t%d-%d", i, j)] = true
			}
			got := map[string]bool{}
			n := 0
			if resp != nil {
				for _, rr := range resp.Answer {
					if x, ok := rr.(*dns.TXT); ok {
						got[strings.Join(x.Txt, "")] = true
						n++
					}
				}
			}
			if err != nil || resp == nil || n != per || len(got) != per || fmt.Sprint(keys(got)) != fmt.Sprint(keys(want)) {
				cs.Name = name
				h.Close()
				_ = os.RemoveAll(dir)
				kit.Fail(t, "C01", "answer-set/bulk/"+b.String(), cs, "%s TXT after a builder compile of %d records: got %d records %v, the file declares %v (%v)", name, names*per, n, keys(got), keys(want), err)
			}
		}
		h.Close()
		_ = os.RemoveAll(dir)
	}
}
