package props

import (
	"context"
	"fmt"
	"os"
	"path/filepath"
	"strings"
	"sync"
	"sync/atomic"
	"testing"
	"time"

	"github.com/facebookincubator/dns/dnsrocks/dnsserver"
	"github.com/miekg/dns"
	"pgregory.net/rapid"

	"verif/kit"
)

// C05: a reload switches generations atomically and visibly.
// Part (i): harness-owned schedules over the verif yield points.

var (
	schedMu  sync.Mutex
	curSched *kit.Sched
	hookOnce sync.Once
)

func installYieldHook() {
	hookOnce.Do(func() {
		dnsserver.VerifYield = func(p string) {
			if p == "query.reader-acquired" {
				atomic.AddInt64(&stressAcquired, 1)
			}
			schedMu.Lock()
			s := curSched
			schedMu.Unlock()
			if s != nil {
				s.Yield(p)
			}
		}
	})
}

func setSched(s *kit.Sched) {
	schedMu.Lock()
	curSched = s
	schedMu.Unlock()
}

// c05Step is one drawn scheduling decision.
type c05Step struct {
	Op    string `json:"op"`              // q-start, q-adv, r-start, r-adv, stage
	Slot  int    `json:"slot,omitempty"`  // query slot
	Query int    `json:"query,omitempty"` // index into kit.StampQueries
	L1    bool   `json:"l1,omitempty"`    // client in location l1
	Kind  string `json:"kind,omitempty"`  // reload kind
	N     int    `json:"n,omitempty"`     // how many yield points to advance (q-adv, r-adv)
}

type c05Case struct {
	Backend string    `json:"backend"`
	Steps   []c05Step `json:"steps"`
	History []string  `json:"history,omitempty"`
}

const c05Slots = 3

const c05FirstGen = 10

var inflightPoints = map[string]bool{
	"query.reader-acquired": true, "query.location-found": true, "query.cache-probed": true,
	"query.authority-checked": true, "query.answer-found": true,
}

type c05Query struct {
	slot       int
	q          kit.Query
	client     kit.Client
	th         *kit.Thread
	resp       *dns.Msg
	floor      int  // generation committed before the query started
	exact      bool // no reload was in progress or started during the query
	exactGen   int
	sawReload  bool
	logAtStart int
}

type c05World struct {
	backend   kit.Backend
	dir       string
	h         *dnsserver.FBDNSDB
	nextGen   int
	pathGen   map[string]int
	served    string
	committed int
	nPaths    int
	prev      string // the path served before the current one
}

// prebuilt RocksDB directories per (backend, generation, withKey): compiling is
// the expensive part of a case, copying a small directory is not.
var (
	c05PoolMu sync.Mutex
	c05Pool   = map[string]string{}
)

func c05Prebuilt(b kit.Backend, g int, withKey bool) (string, error) {
	k := fmt.Sprintf("%s-%d-%v", b, g, withKey)
	c05PoolMu.Lock()
	defer c05PoolMu.Unlock()
	if p, ok := c05Pool[k]; ok {
		return p, nil
	}
	dir := kit.Scratch("c05pool-" + k)
	p, err := kit.Compile(kit.StampText(g, withKey), uint32(g), dir, b, kit.DefaultCompile)
	if err != nil {
		return "", err
	}
	c05Pool[k] = p
	return p, nil
}

func (w *c05World) makeDB(path string, g int, withKey bool) error {
	text := kit.StampText(g, withKey)
	if w.backend == kit.CDB {
		tmp := path + ".tmp"
		dir := filepath.Dir(path)
		p, err := kit.Compile(text, uint32(g), dir, kit.CDB, kit.DefaultCompile)
		if err != nil {
			return err
		}
		_ = tmp
		fixed := time.Unix(1700000000, 0)
		_ = os.Chtimes(p, fixed, fixed)
		return os.Rename(p, path)
	}
	src, err := c05Prebuilt(w.backend, g, withKey)
	if err != nil {
		return err
	}
	_ = os.RemoveAll(path)
	return kit.CopyDir(src, path)
}

func newC05World(b kit.Backend, cache dnsserver.CacheConfig, st *kit.SchedStats) (*c05World, error) {
	// generations are two-digit numbers, so every generation's file has the same size;
	// CDB files also get one fixed modification time (a republished file may look
	// unchanged by size and time, it is still a new generation)
	w := &c05World{backend: b, dir: kit.Scratch("c05"), pathGen: map[string]int{}, nextGen: c05FirstGen}
	p := filepath.Join(w.dir, "A")
	if err := w.makeDB(p, c05FirstGen, true); err != nil {
		return nil, err
	}
	w.pathGen[p] = c05FirstGen
	w.served, w.committed = p, c05FirstGen
	ho := kit.HandlerOpts{ValidationKey: kit.ValidationKey(b), Cache: cache}
	if st != nil {
		ho.Stats = st
	}
	h, err := kit.OpenHandler(p, b, ho)
	if err != nil {
		return nil, err
	}
	w.h = h
	return w, nil
}

func (w *c05World) close() {
	if w.h != nil {
		w.h.Close()
	}
	_ = os.RemoveAll(w.dir)
}

// stage writes the next generation to the served path (what an updater /
// a file replacement does before asking for a partial reload).
func (w *c05World) stage() error {
	w.nextGen++
	g := w.nextGen
	if w.backend == kit.CDB {
		if err := w.makeDB(w.served, g, true); err != nil {
			return err
		}
	} else if err := kit.ApplyStampDiff(w.served, w.pathGen[w.served], g); err != nil {
		return err
	}
	w.pathGen[w.served] = g
	return nil
}

// prepareReload builds the target of a reload and returns the signal plus
// whether success is expected.
func (w *c05World) prepareReload(kind string) (dnsserver.ReloadSignal, string, error) {
	switch kind {
	case "partial":
		return *dnsserver.NewPartialReloadSignal(), w.served, nil
	case "full-ok":
		w.nextGen++
		w.nPaths++
		p := filepath.Join(w.dir, fmt.Sprintf("B%d", w.nPaths))
		if err := w.makeDB(p, w.nextGen, true); err != nil {
			return dnsserver.ReloadSignal{}, "", err
		}
		w.pathGen[p] = w.nextGen
		return *dnsserver.NewFullReloadSignal(p), p, nil
	case "full-prev":
		// back to a database that was served before (after something else was served)
		if w.prev == "" || w.prev == w.served {
			return w.prepareReload("full-ok")
		}
		// the database at the previous path is republished with a newer generation first
		// (stamps must grow with every successful reload for the history invariants)
		w.nextGen++
		if w.backend == kit.CDB {
			if err := w.makeDB(w.prev, w.nextGen, true); err != nil {
				return dnsserver.ReloadSignal{}, "", err
			}
		} else if err := kit.ApplyStampDiff(w.prev, w.pathGen[w.prev], w.nextGen); err != nil {
			return dnsserver.ReloadSignal{}, "", err
		}
		w.pathGen[w.prev] = w.nextGen
		return *dnsserver.NewFullReloadSignal(w.prev), w.prev, nil
	case "missing":
		return *dnsserver.NewFullReloadSignal(filepath.Join(w.dir, "does-not-exist")), "", nil
	case "garbage":
		w.nPaths++
		p := filepath.Join(w.dir, fmt.Sprintf("G%d", w.nPaths))
		if w.backend == kit.CDB {
			junk := make([]byte, 4096)
			for i := range junk {
				junk[i] = byte(i*131 + 7)
			}
			if err := os.WriteFile(p, junk, 0o644); err != nil {
				return dnsserver.ReloadSignal{}, "", err
			}
		} else if err := os.MkdirAll(p, 0o755); err != nil {
			return dnsserver.ReloadSignal{}, "", err
		}
		return *dnsserver.NewFullReloadSignal(p), "", nil
	case "nokey":
		w.nextGen++
		w.nPaths++
		p := filepath.Join(w.dir, fmt.Sprintf("N%d", w.nPaths))
		if err := w.makeDB(p, w.nextGen, false); err != nil {
			return dnsserver.ReloadSignal{}, "", err
		}
		return *dnsserver.NewFullReloadSignal(p), "", nil
	}
	return dnsserver.ReloadSignal{}, "", fmt.Errorf("unknown reload kind %q", kind)
}

func genC05Steps(t *rapid.T) []c05Step {
	var prefix []c05Step
	// half of the schedules start with a scenario that puts a query in flight
	// across a reload: [stage] q-start, advance it k points, start a reload and
	// run it m points, then let the query go on - followed by a random tail.
	if rapid.Bool().Draw(t, "scenario") {
		staged := rapid.IntRange(0, 2).Draw(t, "staged") != 0
		if staged {
			prefix = append(prefix, c05Step{Op: "stage"})
		}
		nq := rapid.IntRange(1, 2).Draw(t, "scen-nq")
		for i := 0; i < nq; i++ {
			prefix = append(prefix, c05Step{Op: "q-start", Slot: i, Query: rapid.IntRange(0, len(kit.StampQueries)-1).Draw(t, "scen-query"), L1: rapid.Bool().Draw(t, "scen-l1")})
			prefix = append(prefix, c05Step{Op: "q-adv", Slot: i, N: rapid.IntRange(1, 7).Draw(t, "scen-k")})
		}
		kind := "partial"
		if !staged || rapid.IntRange(0, 2).Draw(t, "scen-full") == 0 {
			kind = rapid.SampledFrom([]string{"full-ok", "full-ok", "full-prev", "partial", "missing", "nokey", "garbage"}).Draw(t, "scen-kind")
		}
		prefix = append(prefix, c05Step{Op: "r-start", Kind: kind}, c05Step{Op: "r-adv", N: rapid.IntRange(1, 4).Draw(t, "scen-m")})
		if rapid.Bool().Draw(t, "scen-free") {
			// a query that arrives while the reload is half way (it must wait for the reload lock)
			prefix = append(prefix, c05Step{Op: "q-free", Query: rapid.IntRange(0, len(kit.StampQueries)-1).Draw(t, "scen-fq"), L1: rapid.Bool().Draw(t, "scen-fl1")})
		}
		prefix = append(prefix, c05Step{Op: "q-adv", Slot: 0, N: rapid.IntRange(1, 7).Draw(t, "scen-k2")})
	}
	n := rapid.IntRange(2, 30).Draw(t, "nsteps")
	steps := make([]c05Step, n)
	defer func() {}()
	for i := range steps {
		op := rapid.SampledFrom([]string{"q-start", "q-adv", "q-adv", "q-adv", "r-start", "r-adv", "r-adv", "stage", "q-free"}).Draw(t, "op")
		st := c05Step{Op: op}
		switch op {
		case "q-start":
			st.Slot = rapid.IntRange(0, c05Slots-1).Draw(t, "slot")
			st.Query = rapid.IntRange(0, len(kit.StampQueries)-1).Draw(t, "query")
			st.L1 = rapid.Bool().Draw(t, "l1")
		case "q-free":
			st.Query = rapid.IntRange(0, len(kit.StampQueries)-1).Draw(t, "query")
			st.L1 = rapid.Bool().Draw(t, "l1")
		case "q-adv":
			st.Slot = rapid.IntRange(0, c05Slots-1).Draw(t, "slot")
			st.N = rapid.IntRange(1, 7).Draw(t, "n")
		case "r-adv":
			st.N = rapid.IntRange(1, 4).Draw(t, "n")
		case "r-start":
			st.Kind = rapid.SampledFrom([]string{"partial", "partial", "full-ok", "full-ok", "full-prev", "missing", "garbage", "nokey"}).Draw(t, "kind")
		}
		steps[i] = st
	}
	return append(prefix, steps...)
}

// c05Run executes one schedule and checks the history.
func c05Run(t kit.Fataler, b kit.Backend, steps []c05Step, record bool, ignoreKnown bool) {
	installYieldHook()
	cs := c05Case{Backend: b.String(), Steps: steps}
	s := kit.NewSched()
	st := kit.NewSchedStats(s)
	s.Filter = func(p string) bool {
		return strings.HasPrefix(p, "query.") || strings.HasPrefix(p, "reload.") || p == "stats:DNS_queries"
	}
	w, err := newC05World(b, dnsserver.CacheConfig{}, st)
	if err != nil {
		kit.Fail(t, "C05", "setup-error", cs, "setup: %v", err)
		return
	}
	setSched(s)
	defer func() {
		setSched(nil)
		w.close()
	}()
	fail := func(key, format string, a ...interface{}) {
		cs.History = s.Log
		kit.Fail(t, "C05", key+"/"+b.String(), cs, format+"\nhistory: %v", append(a, s.Log)...)
	}
	knownMixed := kit.IsKnown("C05", "rdb-partial-reload-inflight-mixed-generation") && !ignoreKnown
	slots := make([]*c05Query, c05Slots)
	lastStamp := make([]int, c05Slots)
	var reload *kit.Thread
	var reloadErr error
	var reloadKind, reloadTarget string
	reloadsStarted := 0
	overlap := ""
	failedThenQueried := false
	lastReloadFailed := false

	type freeQ struct {
		q    *c05Query
		done chan struct{}
	}
	var free []freeQ
	var freePanics []string
	freeDuringReload := false
	reloadHoldsLock := func() bool { return reload != nil && !reload.Done && strings.HasPrefix(reload.Point, "reload.") }
	finishQuery := func(q *c05Query) {
		stamps := kit.Stamps(q.resp)
		if q.resp == nil {
			fail("no-response", "slot %d %s: nothing written", q.slot, q.q.Name)
		}
		if len(stamps) == 0 {
			fail("unstamped-response", "slot %d %s type %d: response carries no generation stamp: %s", q.slot, q.q.Name, q.q.Type, kit.Brief(q.resp))
		}
		for _, x := range stamps {
			if x != stamps[0] {
				fail("mixed-generations", "slot %d %s type %d: one response mixes generations %v: %s", q.slot, q.q.Name, q.q.Type, stamps, kit.Brief(q.resp))
			}
		}
		g := stamps[0]
		if g < q.floor {
			fail("stale-after-reload", "slot %d %s: started after the reload to generation %d had returned, but was answered from generation %d", q.slot, q.q.Name, q.floor, g)
		}
		if g > w.nextGen {
			fail("future-generation", "slot %d: generation %d was never created", q.slot, g)
		}
		if g < lastStamp[q.slot] {
			fail("generation-went-backwards", "slot %d saw generation %d after %d", q.slot, g, lastStamp[q.slot])
		}
		if q.exact && !q.sawReload && g != q.exactGen {
			key := "wrong-generation-while-idle"
			if lastReloadFailed {
				key = "failed-reload-changed-served-generation"
			}
			fail(key, "slot %d %s: no reload ran during this query; expected generation %d (last successful reload), got %d", q.slot, q.q.Name, q.exactGen, g)
		}
		lastStamp[q.slot] = g
		if lastReloadFailed {
			failedThenQueried = true
		}
	}
	finishReload := func() {
		if reloadErr == nil {
			switch reloadKind {
			case "partial":
				w.committed = w.pathGen[w.served]
			case "full-ok", "full-prev":
				if reloadTarget != w.served {
					w.prev = w.served
				}
				w.served = reloadTarget
				w.committed = w.pathGen[reloadTarget]
			default:
				fail("bad-reload-accepted", "reload of kind %s returned nil", reloadKind)
			}
			lastReloadFailed = false
		} else {
			if reloadKind == "partial" || reloadKind == "full-ok" || reloadKind == "full-prev" {
				fail("good-reload-failed", "reload of kind %s failed: %v", reloadKind, reloadErr)
			}
			lastReloadFailed = true
		}
	}
	advance := func(th *kit.Thread) string {
		p, err := s.Advance(th)
		if err != nil {
			fail("stuck", "%v", err)
		}
		return p
	}
	advanceReload := func() {
		if reload == nil || reload.Done {
			return
		}
		if reloadKind == "partial" && b != kit.CDB && reload.Point == "reload.locked" {
			for _, q := range slots {
				if q != nil && !q.th.Done && inflightPoints[q.th.Point] {
					if knownMixed {
						kit.Excluded("rdb-partial-reload-inflight-mixed-generation")
						return
					}
				}
			}
		}
		for _, q := range slots {
			if q != nil && !q.th.Done && q.th.Started {
				q.sawReload = true
				if overlap == "" && q.th.Point != "" {
					overlap = q.th.Point + "|" + reload.Point
				}
			}
		}
		if advance(reload) == "" {
			finishReload()
		}
	}
	for _, step := range steps {
		switch step.Op {
		case "q-start":
			if slots[step.Slot] != nil && !slots[step.Slot].th.Done {
				continue
			}
			q := &c05Query{slot: step.Slot, q: kit.StampQueries[step.Query], client: kit.Client{Resolver: "192.0.2.9"}}
			if step.L1 {
				q.client.Resolver = "10.9.9.9"
			}
			q.q.MaxAns = 8
			q.floor = w.committed
			idle := reload == nil || reload.Done
			q.exact, q.exactGen = idle, w.committed
			req := kit.BuildMsg(q.q, q.client, uint16(100+step.Slot))
			q.th = s.Spawn(fmt.Sprintf("Q%d", step.Slot), func() {
				wr := &kit.Writer{Remote: q.client.Resolver, TCP: true, OnWrite: func() { s.Yield("query.write") }}
				_, _ = w.h.ServeDNS(dnsserver.WithMaxAnswer(context.Background(), 8), wr, req)
				if len(wr.Msgs) > 0 {
					q.resp = wr.Msgs[0]
				}
			})
			slots[step.Slot] = q
			if advance(q.th) == "" { // parks at stats:DNS_queries
				finishQuery(q)
			}
		case "q-free":
			// a free-running query (not owned by the scheduler): it starts now, whatever the
			// reload is doing; if the reload holds the lock it simply waits for it
			fq := &c05Query{slot: -1, q: kit.StampQueries[step.Query], client: kit.Client{Resolver: "192.0.2.9"}}
			if step.L1 {
				fq.client.Resolver = "10.9.9.9"
			}
			fq.q.MaxAns = 8
			fq.floor = w.committed
			done := make(chan struct{})
			go func() {
				defer close(done)
				defer func() {
					if r := recover(); r != nil {
						freePanics = append(freePanics, fmt.Sprint(r))
					}
				}()
				fq.resp, _, _ = kit.Ask(w.h, fq.q, fq.client)
			}()
			select {
			case <-done:
			case <-time.After(20 * time.Millisecond):
			}
			free = append(free, freeQ{fq, done})
			if reload != nil && !reload.Done {
				freeDuringReload = true
			}
		case "q-adv":
			q := slots[step.Slot]
			if q == nil || q.th.Done {
				continue
			}
			for i := 0; i < step.N || i == 0; i++ {
				if q.th.Done || (q.th.Point == "stats:DNS_queries" && reloadHoldsLock()) {
					break // finished, or would block on the reload lock
				}
				if advance(q.th) == "" {
					finishQuery(q)
				}
			}
		case "r-start":
			if reload != nil && !reload.Done {
				continue
			}
			sig, target, err := w.prepareReload(step.Kind)
			if err != nil {
				fail("setup-error", "preparing reload %s: %v", step.Kind, err)
			}
			reloadKind, reloadTarget = step.Kind, target
			reloadsStarted++
			reload = s.Spawn(fmt.Sprintf("R%d:%s", reloadsStarted, step.Kind), func() { reloadErr = w.h.Reload(sig) })
			for _, q := range slots {
				if q != nil && !q.th.Done {
					q.sawReload = true
				}
			}
			if advance(reload) == "" {
				finishReload()
			}
		case "r-adv":
			for i := 0; i < step.N || i == 0; i++ {
				advanceReload()
			}
		case "stage":
			if reload != nil && !reload.Done {
				continue
			}
			inflight := false
			for _, q := range slots {
				if q != nil && !q.th.Done && q.th.Started {
					inflight = true
				}
			}
			if b != kit.CDB && inflight {
				continue // the updater and the secondary share files; staged data must not be visible before catch-up - checked with idle queries
			}
			if err := w.stage(); err != nil {
				fail("setup-error", "staging generation: %v", err)
			}
		}
	}
	// drain: the reload first, then the queries (those waiting for the lock last)
	for guard := 0; reload != nil && !reload.Done && guard < 50; guard++ {
		before := reload.Point
		advanceReload()
		if !reload.Done && reload.Point == before {
			// blocked by the known-finding exclusion: let the in-flight queries finish
			for _, q := range slots {
				if q != nil && !q.th.Done && inflightPoints[q.th.Point] {
					for !q.th.Done {
						if advance(q.th) == "" {
							finishQuery(q)
						}
					}
				}
			}
		}
	}
	for _, q := range slots {
		for q != nil && !q.th.Done {
			if advance(q.th) == "" {
				finishQuery(q)
			}
		}
	}
	for _, f := range free {
		select {
		case <-f.done:
		case <-time.After(60 * time.Second):
			fail("stuck", "a free-running query never finished")
		}
		if len(freePanics) > 0 {
			fail("panic", "free-running query panicked: %v", freePanics)
		}
		stamps := kit.Stamps(f.q.resp)
		if f.q.resp == nil || len(stamps) == 0 {
			fail("no-response", "free-running query %s: %s", f.q.q.Name, kit.Brief(f.q.resp))
		}
		for _, x := range stamps {
			if x != stamps[0] && !(b != kit.CDB && knownMixed) {
				fail("mixed-generations", "free-running query %s mixes generations %v", f.q.q.Name, stamps)
			}
			if x < f.q.floor || x > w.nextGen {
				fail("stale-after-reload", "free-running query %s started after the reload to %d returned but shows generation %d", f.q.q.Name, f.q.floor, x)
			}
		}
	}
	// a final query must show the last successfully loaded generation
	setSched(nil)
	for _, c := range []string{"192.0.2.9", "10.9.9.9"} {
		fq := kit.StampQueries[0]
		fq.MaxAns = 8
		resp, _, _ := kit.Ask(w.h, fq, kit.Client{Resolver: c})
		stamps := kit.Stamps(resp)
		if len(stamps) == 0 || stamps[0] != w.committed {
			fail("final-generation", "after all reloads the server answers generation %v, the last successful reload loaded %d", stamps, w.committed)
		}
	}
	if record {
		if overlap != "" {
			kit.NonTrivial(fmt.Sprintf("%s|overlap|%s|%s", b, overlap, reloadKind))
			kit.Class("overlap")
		}
		if freeDuringReload {
			kit.Class("free-query-during-reload")
			kit.NonTrivial(fmt.Sprintf("%s|free-during-reload|%s", b, reloadKind))
		}
		if failedThenQueried {
			kit.NonTrivial(fmt.Sprintf("%s|failed-then-queried|%v", b, steps))
			kit.Class("failed-reload-then-query")
		}
		kit.Class(fmt.Sprintf("reloads:%d", min3(reloadsStarted)))
	}
}

// c05Timeout: a reload that times out must leave the served generation as
// the returned error says.
func c05Timeout(t kit.Fataler, b kit.Backend) {
	cs := c05Case{Backend: b.String(), Steps: []c05Step{{Op: "timeout"}}}
	w, err := newC05World(b, dnsserver.CacheConfig{}, nil)
	if err != nil {
		kit.Fail(t, "C05", "setup-error", cs, "setup: %v", err)
		return
	}
	defer w.close()
	w.h.Close()
	h, err := kit.OpenHandler(w.served, b, kit.HandlerOpts{ValidationKey: kit.ValidationKey(b), ReloadTimeout: time.Nanosecond})
	if err != nil {
		kit.Fail(t, "C05", "setup-error", cs, "open: %v", err)
		return
	}
	w.h = h
	sig, target, err := w.prepareReload("full-ok")
	if err != nil {
		kit.Fail(t, "C05", "setup-error", cs, "prepare: %v", err)
		return
	}
	rerr := h.Reload(sig)
	want := w.committed
	if rerr == nil {
		want = w.pathGen[target]
	}
	deadline := time.Now().Add(300 * time.Millisecond)
	for {
		fq := kit.StampQueries[0]
		fq.MaxAns = 8
		resp, _, _ := kit.Ask(h, fq, kit.Client{Resolver: "192.0.2.9"})
		stamps := kit.Stamps(resp)
		if len(stamps) == 0 || stamps[0] != want {
			kit.Fail(t, "C05", "timeout-reload-changed-generation/"+b.String(), cs, "full reload with a 1ns timeout returned %v, yet the server answers generation %v (expected %d)", rerr, stamps, want)
		}
		if time.Now().After(deadline) {
			break
		}
		time.Sleep(20 * time.Millisecond)
	}
	kit.Class("timeout-reload")
}

// c05TimeoutPartial: a partial (catch-up / reopen) reload that times out.
func c05TimeoutPartial(t kit.Fataler, b kit.Backend) {
	cs := c05Case{Backend: b.String(), Steps: []c05Step{{Op: "stage"}, {Op: "timeout-partial"}}}
	w, err := newC05World(b, dnsserver.CacheConfig{}, nil)
	if err != nil {
		kit.Fail(t, "C05", "setup-error", cs, "setup: %v", err)
		return
	}
	defer w.close()
	w.h.Close()
	h, err := kit.OpenHandler(w.served, b, kit.HandlerOpts{ValidationKey: kit.ValidationKey(b), ReloadTimeout: time.Nanosecond})
	if err != nil {
		kit.Fail(t, "C05", "setup-error", cs, "open: %v", err)
		return
	}
	w.h = h
	old := w.committed
	if err := w.stage(); err != nil {
		kit.Fail(t, "C05", "setup-error", cs, "stage: %v", err)
		return
	}
	rerr := h.Reload(*dnsserver.NewPartialReloadSignal())
	want := old
	if rerr == nil {
		want = w.pathGen[w.served]
	}
	deadline := time.Now().Add(500 * time.Millisecond)
	bad := ""
	for {
		fq := kit.StampQueries[0]
		fq.MaxAns = 8
		resp, _, _ := kit.Ask(h, fq, kit.Client{Resolver: "192.0.2.9"})
		stamps := kit.Stamps(resp)
		if (len(stamps) == 0 || stamps[0] != want) && bad == "" {
			bad = fmt.Sprintf("partial reload with a 1ns timeout returned %v, yet the server answers generation %v (expected %d)", rerr, stamps, want)
		}
		if time.Now().After(deadline) {
			break
		}
		time.Sleep(20 * time.Millisecond)
	}
	// (the loop always runs to its deadline: the timed-out catch-up goroutine
	// must be finished before the deferred close tears the database down)
	if bad != "" {
		kit.Fail(t, "C05", "timeout-partial-reload-still-applied/"+b.String(), cs, "%s", bad)
	}
	kit.Class("timeout-partial-reload")
}

func TestC05(t *testing.T) {
	if f := kit.ReplayFile(); f != "" {
		var c c05Case
		kit.LoadReplay(t, f, &c)
		for _, b := range kit.AllBackends {
			if b.String() == c.Backend {
				c05Run(t, b, c.Steps, false, true)
			}
		}
		kit.Eval()
		return
	}
	if kit.IsKnown("C05", "rdb-partial-reload-inflight-mixed-generation") && kit.Shard() == 0 {
		c05KnownMixed(t)
	}
	for _, b := range kit.AllBackends {
		if kit.Shard() == int(b) || kit.NShards() < 3 {
			c05Timeout(t, b)
			kit.Eval()
			key := "timeout-partial-reload-still-applied/" + b.String()
			if kit.IsKnown("C05", key) {
				rec := &recorder{}
				if rec.try(func() { c05TimeoutPartial(rec, b) }) {
					kit.ClearFailure("C05")
					kit.KnownSeen("C05", key)
				} else {
					kit.Note("known finding C05/%s did not reproduce in this run (timing dependent)", key)
				}
			} else {
				c05TimeoutPartial(t, b)
			}
			kit.Eval()
		}
	}
	// part (ii): free-running stress with generation invariants (a short slice
	// in quick, longer in thorough); configurations drawn by rapid
	kit.SetRapid(kit.N(16, 320))
	rapid.Check(t, kit.Prop("C05", func(t *rapid.T) {
		cfg := genStressCfg(t, true, kit.Pick(1500, 6000))
		kit.Case(cfg)
		res := stressRun(t, "C05", cfg)
		kit.ClassN("stress-queries", res.Queries)
		kit.ClassN("stress-reloads", res.Reloads)
		kit.ClassN("stress-queries-overlapping-a-reload", res.Overlapped)
		if res.Overlapped > 0 {
			kit.NonTrivial(fmt.Sprintf("stress|%s|%d|%v", cfg.Backend, cfg.Workers, cfg.Reloads))
		}
	}))
	nHist := kit.Pick(1600, 24000) * scalePct() / 100
	kit.SetRapid(kit.N(nHist, nHist))
	rapid.Check(t, kit.Prop("C05", func(t *rapid.T) {
		b := rapid.SampledFrom(kit.AllBackends).Draw(t, "backend")
		steps := genC05Steps(t)
		kit.Case(c05Case{Backend: b.String(), Steps: steps})
		c05Run(t, b, steps, true, false)
		kit.Sample(c05Case{Backend: b.String(), Steps: steps})
	}))
}

// c05KnownMixed reproduces the known finding: a RocksDB partial reload while
// a query is parked between its answer lookup and its additional-section
// lookup (MX answer from the old generation, glue from the new one).
func c05KnownMixed(t *testing.T) {
	steps := []c05Step{{Op: "stage"}, {Op: "q-start", Slot: 0, Query: 3}}
	for i := 0; i < 5; i++ {
		steps = append(steps, c05Step{Op: "q-adv", Slot: 0})
	}
	steps = append(steps, c05Step{Op: "r-start", Kind: "partial"}, c05Step{Op: "r-adv"}, c05Step{Op: "r-adv"}, c05Step{Op: "r-adv"}, c05Step{Op: "r-adv"})
	rec := &recorder{}
	if rec.try(func() { c05Run(rec, kit.RDBv2, steps, false, true) }) {
		kit.ClearFailure("C05")
		if strings.Contains(rec.msg, "mixed-generations") {
			kit.KnownSeen("C05", "rdb-partial-reload-inflight-mixed-generation")
			return
		}
		t.Fatalf("known-finding reproduction failed differently: %s", rec.msg)
	}
	kit.Note("known finding C05/rdb-partial-reload-inflight-mixed-generation no longer reproduces")
}
