package kit

import (
	"bytes"
	"encoding/binary"
	"fmt"
	"net"
	"sort"
	"strings"
)

// A World is a structured tinydns-style data file.  The reference resolver
// (oracle.go) works on this structure and on Expand below, which implements
// the line semantics from the documented format (DESIGN.md appendix A) - not
// on the repository's parser or on compiled bytes.

// Line is one data line in structured form.  Numeric fields use -1 for
// "omitted" (the documented default applies).
type Line struct {
	K     byte   `json:"k"`               // line type character
	Owner string `json:"owner,omitempty"` // as written, no trailing dot, without "*."
	Wild  bool   `json:"wild,omitempty"`
	Loc   string `json:"loc,omitempty"` // "" or exactly two bytes
	TTL   int64  `json:"ttl"`           // -1 omitted
	IP    string `json:"ip,omitempty"`
	X     string `json:"x,omitempty"`   // NS/MX/SRV name field, CNAME/PTR/SVCB target, SOA mname
	Adm   string `json:"adm,omitempty"` // SOA rname
	// SOA: ser,ref,ret,exp,min; MX: dist; SRV: port,pri,weight; +: weight; B/H: priority
	N      [5]int64 `json:"n"`
	Text   []byte   `json:"text,omitempty"` // TXT text / generic rdata
	RType  uint16   `json:"rtype,omitempty"`
	Params int      `json:"params,omitempty"` // index into SvcParamSamples
	MapID  string   `json:"map,omitempty"`    // M / 8 / % lines
	CIDR   string   `json:"cidr,omitempty"`   // % lines ("" = default 0.0.0.0/0)
	Colon  bool     `json:"colon,omitempty"`  // render with ':' as separator
}

// RR is one resource record as the data file declares it.
type RR struct {
	Owner  string // lower case, no trailing dot, "" = root
	Wild   bool
	Loc    string // "" untagged
	Type   uint16
	TTL    uint32
	Weight uint32 // A / AAAA only
	RData  []byte // uncompressed wire rdata (TXT: the character-strings as stored)
	Text   []byte // TXT: the full text
}

// MapDecl is an M or 8 line.
type MapDecl struct {
	Kind  byte // 'M' or '8'
	Name  string
	Wild  bool
	MapID [2]byte
}

// Subnet is a % line.
type Subnet struct {
	MapID [2]byte
	IP    net.IP // 16 bytes
	Len   int    // 0..128 (IPv4 prefixes are offset by 96)
	V4    bool   // IPv4 family
	Loc   [2]byte
}

// World is a whole data file.
type World struct {
	Lines  []Line `json:"lines"`
	Serial uint32 `json:"serial"`
}

// SvcParamSamples are SVCB parameter lists with hand-derived wire forms (the
// general parameter grammar is C18's subject, here a few fixed ones suffice).
var SvcParamSamples = []struct {
	Text string
	Wire []byte
}{
	{"", nil},
	{"alpn=h2", []byte{0, 1, 0, 3, 2, 'h', '2'}},
	{"port=443", []byte{0, 3, 0, 2, 1, 0xbb}},
	{"alpn=h2|h3;port=8443", []byte{0, 1, 0, 6, 2, 'h', '2', 2, 'h', '3', 0, 3, 0, 2, 0x20, 0xfb}},
	{"ipv4hint=1.2.3.4", []byte{0, 4, 0, 4, 1, 2, 3, 4}},
	{"port=53;alpn=h3", []byte{0, 1, 0, 3, 2, 'h', '3', 0, 3, 0, 2, 0, 53}},
}

// Default TTLs of the documented format.
const (
	ttlLong  = 86400
	ttlShort = 2560
	ttlLink  = 259200
)

// NameWire packs a presentation name (no escapes, labels separated by dots)
// into uncompressed wire form; empty labels are skipped.
func NameWire(name string) []byte {
	var b []byte
	for _, l := range strings.Split(name, ".") {
		if l == "" {
			continue
		}
		b = append(b, byte(len(l)))
		b = append(b, l...)
	}
	return append(b, 0)
}

func lowerASCII(s string) string {
	b := []byte(s)
	for i, c := range b {
		if c >= 'A' && c <= 'Z' {
			b[i] = c + 32
		}
	}
	return string(b)
}

// CanonName lower-cases and strips surrounding dots.
func CanonName(s string) string { return strings.Trim(lowerASCII(s), ".") }

func pick(v int64, def uint32) uint32 {
	if v < 0 {
		return def
	}
	return uint32(v)
}

func u16(v uint32) []byte { return []byte{byte(v >> 8), byte(v)} }
func u32(v uint32) []byte {
	var b [4]byte
	binary.BigEndian.PutUint32(b[:], v)
	return b[:]
}

func expandShort(x, kind, dom string) string {
	if !strings.Contains(x, ".") {
		return x + "." + kind + "." + dom
	}
	return x
}

func addrRR(owner string, wild bool, loc string, ttl uint32, weight uint32, ipText string) (RR, bool) {
	ip := net.ParseIP(ipText)
	if ip == nil {
		return RR{}, false
	}
	if v4 := ip.To4(); v4 != nil {
		return RR{Owner: CanonName(owner), Wild: wild, Loc: loc, Type: 1, TTL: ttl, Weight: weight, RData: []byte(v4)}, true
	}
	return RR{Owner: CanonName(owner), Wild: wild, Loc: loc, Type: 28, TTL: ttl, Weight: weight, RData: []byte(ip.To16())}, true
}

func reverseName(ip net.IP) string {
	if v4 := ip.To4(); v4 != nil {
		return fmt.Sprintf("%d.%d.%d.%d.in-addr.arpa", v4[3], v4[2], v4[1], v4[0])
	}
	ip = ip.To16()
	var sb strings.Builder
	for i := 15; i >= 0; i-- {
		fmt.Fprintf(&sb, "%x.%x.", ip[i]&0xf, ip[i]>>4)
	}
	sb.WriteString("ip6.arpa")
	return sb.String()
}

// Expand returns the resource records a line declares (nil for map, subnet
// and range-point lines).
func (l *Line) Expand(serial uint32) []RR {
	owner := CanonName(l.Owner)
	switch l.K {
	case 'Z':
		rd := append(NameWire(l.X), NameWire(l.Adm)...)
		rd = append(rd, u32(pick(l.N[0], serial))...)
		rd = append(rd, u32(pick(l.N[1], 16384))...)
		rd = append(rd, u32(pick(l.N[2], 2048))...)
		rd = append(rd, u32(pick(l.N[3], 1048576))...)
		rd = append(rd, u32(pick(l.N[4], 2560))...)
		return []RR{{Owner: owner, Loc: l.Loc, Type: 6, TTL: pick(l.TTL, ttlShort), RData: rd}}
	case '.', '&':
		ns := expandShort(l.X, "ns", l.Owner)
		ttl := pick(l.TTL, ttlLink)
		var out []RR
		if l.K == '.' {
			soaTTL := uint32(ttlShort)
			if ttl == 0 {
				soaTTL = 0
			}
			rd := append(NameWire(ns), NameWire("hostmaster."+l.Owner)...)
			rd = append(rd, u32(serial)...)
			rd = append(rd, u32(16384)...)
			rd = append(rd, u32(2048)...)
			rd = append(rd, u32(1048576)...)
			rd = append(rd, u32(2560)...)
			out = append(out, RR{Owner: owner, Loc: l.Loc, Type: 6, TTL: soaTTL, RData: rd})
		}
		out = append(out, RR{Owner: owner, Loc: l.Loc, Type: 2, TTL: ttl, RData: NameWire(ns)})
		if a, ok := addrRR(ns, false, l.Loc, ttl, 1, l.IP); ok {
			out = append(out, a)
		}
		return out
	case '+':
		if a, ok := addrRR(l.Owner, l.Wild, l.Loc, pick(l.TTL, ttlLong), pick(l.N[0], 1), l.IP); ok {
			return []RR{a}
		}
		return nil
	case '=':
		ttl := pick(l.TTL, ttlLong)
		a, ok := addrRR(l.Owner, l.Wild, l.Loc, ttl, 1, l.IP)
		if !ok {
			return nil // the generator never emits '=' without an address
		}
		host := l.Owner
		if l.Wild {
			host = "*." + host
		}
		ptr := RR{Owner: CanonName(reverseName(net.ParseIP(l.IP))), Loc: l.Loc, Type: 12, TTL: ttl, RData: NameWire(host)}
		return []RR{a, ptr}
	case '@':
		mx := expandShort(l.X, "mx", l.Owner)
		ttl := pick(l.TTL, ttlLong)
		rd := append(u16(pick(l.N[0], 0)), NameWire(mx)...)
		out := []RR{{Owner: owner, Loc: l.Loc, Type: 15, TTL: ttl, RData: rd}}
		if a, ok := addrRR(mx, false, l.Loc, ttl, 1, l.IP); ok {
			out = append(out, a)
		}
		return out
	case 'S':
		srv := expandShort(l.X, "srv", l.Owner)
		ttl := pick(l.TTL, ttlLong)
		rd := append(u16(pick(l.N[1], 0)), u16(pick(l.N[2], 0))...) // priority, weight
		rd = append(rd, u16(pick(l.N[0], 0))...)                    // port
		rd = append(rd, NameWire(srv)...)
		out := []RR{{Owner: owner, Loc: l.Loc, Type: 33, TTL: ttl, RData: rd}}
		if a, ok := addrRR(srv, false, l.Loc, ttl, 1, l.IP); ok {
			out = append(out, a)
		}
		return out
	case 'C':
		return []RR{{Owner: owner, Wild: l.Wild, Loc: l.Loc, Type: 5, TTL: pick(l.TTL, ttlLong), RData: NameWire(l.X)}}
	case '^':
		return []RR{{Owner: owner, Loc: l.Loc, Type: 12, TTL: pick(l.TTL, ttlLong), RData: NameWire(l.X)}}
	case '\'':
		return []RR{{Owner: owner, Wild: l.Wild, Loc: l.Loc, Type: 16, TTL: pick(l.TTL, ttlLong), Text: append([]byte(nil), l.Text...)}}
	case ':':
		r := RR{Owner: owner, Loc: l.Loc, Type: l.RType, TTL: pick(l.TTL, ttlLong), RData: append([]byte(nil), l.Text...)}
		if l.RType == 16 {
			// TXT is compared by its concatenated text
			rd := l.Text
			for len(rd) > 0 && 1+int(rd[0]) <= len(rd) {
				r.Text = append(r.Text, rd[1:1+int(rd[0])]...)
				rd = rd[1+int(rd[0]):]
			}
			if r.Text == nil {
				r.Text = []byte{}
			}
		}
		return []RR{r}
	case 'B', 'H':
		typ := uint16(64)
		if l.K == 'H' {
			typ = 65
		}
		rd := u16(pick(l.N[0], 0))
		if l.X == "." {
			rd = append(rd, 0)
		} else {
			rd = append(rd, NameWire(l.X)...)
		}
		rd = append(rd, SvcParamSamples[l.Params].Wire...)
		return []RR{{Owner: owner, Wild: l.Wild, Loc: l.Loc, Type: typ, TTL: pick(l.TTL, 0), RData: rd}}
	}
	return nil
}

// quoting of the renderer: printable ASCII stays, everything else and the
// characters with a meaning in the file format become three-digit octal
// escapes (the documented tinydns escape).
func qfield(b []byte) string {
	var sb strings.Builder
	for i, c := range b {
		// blanks are data like any other byte; every other one is written raw
		// (also at the end of a field), the rest escaped
		if c == ' ' && i%2 == 1 {
			sb.WriteByte(c)
			continue
		}
		if c > 0x20 && c < 0x7f && c != '\\' && c != ',' && c != ':' {
			sb.WriteByte(c)
		} else {
			fmt.Fprintf(&sb, "\\%03o", c)
		}
	}
	return sb.String()
}

func numf(v int64) string {
	if v < 0 {
		return ""
	}
	return fmt.Sprintf("%d", v)
}

// Render returns the text of a line.
func (l *Line) Render() string {
	sep := ","
	if l.Colon {
		sep = ":"
	}
	name := qfield([]byte(l.Owner))
	if l.Wild {
		name = "*." + name
	}
	loc := qfield([]byte(l.Loc))
	var f []string
	switch l.K {
	case 'Z':
		f = []string{name, qfield([]byte(l.X)), qfield([]byte(l.Adm)), numf(l.N[0]), numf(l.N[1]), numf(l.N[2]), numf(l.N[3]), numf(l.N[4]), numf(l.TTL), "", loc}
	case '.', '&':
		f = []string{name, l.IP, qfield([]byte(l.X)), numf(l.TTL), "", loc}
	case '+':
		f = []string{name, l.IP, numf(l.TTL), "", loc, numf(l.N[0])}
	case '=':
		f = []string{name, l.IP, numf(l.TTL), "", loc}
	case '@':
		f = []string{name, l.IP, qfield([]byte(l.X)), numf(l.N[0]), numf(l.TTL), "", loc}
	case 'S':
		f = []string{name, l.IP, qfield([]byte(l.X)), numf(l.N[0]), numf(l.N[1]), numf(l.N[2]), numf(l.TTL), "", loc}
	case 'C', '^':
		f = []string{name, qfield([]byte(l.X)), numf(l.TTL), "", loc}
	case '\'':
		f = []string{name, qfield(l.Text), numf(l.TTL), "", loc}
	case ':':
		f = []string{name, fmt.Sprintf("%d", l.RType), qfield(l.Text), numf(l.TTL), "", loc}
	case 'B', 'H':
		tgt := qfield([]byte(l.X))
		if l.X == "." {
			tgt = "."
		}
		f = []string{name, tgt, numf(l.TTL), loc, numf(l.N[0]), SvcParamSamples[l.Params].Text}
	case 'M', '8':
		f = []string{name, qfield([]byte(l.MapID))}
	case '%':
		f = []string{loc, l.CIDR, qfield([]byte(l.MapID))}
	default:
		panic(fmt.Sprintf("render: unknown line kind %q", l.K))
	}
	for len(f) > 1 && f[len(f)-1] == "" {
		f = f[:len(f)-1]
	}
	return string(l.K) + strings.Join(f, sep)
}

// CanColon reports whether a line can be written with ':' as separator
// (no field may contain a colon and the first separator seen decides).
func (l *Line) CanColon() bool {
	c := *l
	c.Colon = false
	s := c.Render()
	return !strings.Contains(s, ":") && strings.Contains(s, ",")
}

// Text renders the whole file.
func (w *World) Text() []byte {
	var b bytes.Buffer
	for i := range w.Lines {
		b.WriteString(w.Lines[i].Render())
		b.WriteByte('\n')
	}
	return b.Bytes()
}

// RRs expands all lines.
func (w *World) RRs() []RR {
	var out []RR
	for i := range w.Lines {
		out = append(out, w.Lines[i].Expand(w.Serial)...)
	}
	return out
}

func mapID(s string) [2]byte {
	var m [2]byte
	copy(m[:], s)
	return m
}

// Maps returns the M and 8 declarations.
func (w *World) Maps() []MapDecl {
	var out []MapDecl
	for _, l := range w.Lines {
		if l.K == 'M' || l.K == '8' {
			out = append(out, MapDecl{Kind: l.K, Name: CanonName(l.Owner), Wild: l.Wild, MapID: mapID(l.MapID)})
		}
	}
	return out
}

// ParseSubnet interprets the CIDR field of a % line the way the format
// documents it: CIDR, bare address (host route) or empty (IPv4 default).
func ParseSubnet(cidr string) (ip net.IP, length int, v4 bool, ok bool) {
	if cidr == "" {
		return net.ParseIP("::ffff:0.0.0.0").To16(), 96, true, true
	}
	if !strings.Contains(cidr, "/") {
		p := net.ParseIP(cidr)
		if p == nil {
			return nil, 0, false, false
		}
		if p.To4() != nil && !strings.Contains(cidr, ":") {
			return p.To16(), 128, true, true
		}
		if p.To4() != nil {
			return p.To16(), 128, true, true
		}
		return p.To16(), 128, false, true
	}
	_, n, err := net.ParseCIDR(cidr)
	if err != nil {
		return nil, 0, false, false
	}
	ones, bits := n.Mask.Size()
	if bits == 32 {
		return n.IP.To16(), ones + 96, true, true
	}
	// written in IPv6 notation: IPv4 family iff inside ::ffff:0:0/96
	ip16 := n.IP.To16()
	isMapped := ones >= 96 && bytes.Equal(ip16[:12], []byte{0, 0, 0, 0, 0, 0, 0, 0, 0, 0, 0xff, 0xff})
	return ip16, ones, isMapped, true
}

// Subnets returns the % declarations.
func (w *World) Subnets() []Subnet {
	var out []Subnet
	for _, l := range w.Lines {
		if l.K != '%' {
			continue
		}
		ip, n, v4, ok := ParseSubnet(l.CIDR)
		if !ok {
			continue
		}
		var lo [2]byte
		copy(lo[:], l.Loc)
		out = append(out, Subnet{MapID: mapID(l.MapID), IP: ip, Len: n, V4: v4, Loc: lo})
	}
	return out
}

// Names returns every owner name of the file (canonical), sorted.
func (w *World) Names() []string {
	set := map[string]bool{}
	for _, r := range w.RRs() {
		set[r.Owner] = true
	}
	out := make([]string, 0, len(set))
	for n := range set {
		out = append(out, n)
	}
	sort.Strings(out)
	return out
}
