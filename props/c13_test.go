package props

import (
	"context"
	"encoding/hex"
	"fmt"
	"net"
	"strings"
	"sync"
	"testing"
	"time"

	"github.com/facebookincubator/dns/dnsrocks/dnsserver"
	"github.com/miekg/dns"
	"pgregory.net/rapid"

	"verif/kit"
)

// C13: any wire-valid query gets a well-formed reply or none; no panic.

const c13Normal = `.example.com,192.0.2.53,a,300
&example.com,2001:db8::53,b
&sub.example.com,192.0.2.54,ns.sub.example.com
&sub.example.com,,ns.other.net
.child.example.com,192.0.2.55,a
+www.example.com,192.0.2.1,60
+www.example.com,192.0.2.2,60,,,5
+www.example.com,2001:db8::1
+www.example.com,192.0.2.3,,,l1
+*.wild.example.com,192.0.2.9
C*.cn.example.com,www.example.com
Calias.example.com,www.example.com,120
@example.com,192.0.2.25,a,10
@example.com,,mail.other.net,20
'txt.example.com,hello world,30
:raw.example.com,65280,\001\002\003
Hsvc.example.com,.,300,,1,alpn=h2|h3;port=8443
Bsvcb.example.com,.,300,,1,alpn=h2;port=8443
B_dns.example.com,svc.example.com,300,,0,
Ssrv.example.com,192.0.2.77,a,443,1,2
^1.2.0.192.in-addr.arpa,www.example.com
Mexample.com,m1
M*.example.com,m1
8www.example.com,e1
8*.wild.example.com,e1
%l1,10.0.0.0/8,m1
%l2,0.0.0.0/0,m1
%l2,::/0,m1
%l1,10.1.0.0/16,e1
%l1,2001:db8::/32,e1
%l2,10.1.2.0/24,e1
`

const c13RootZone = `.,192.0.2.53,a.ns.root-servers.example
+a,192.0.2.1
+*.,192.0.2.2
&com,192.0.2.54,a.ns.com
'txt,root child
M*.,m1
%l1,0.0.0.0/0,m1
%l1,::/0,m1
`

// a root zone without wildcards: names directly under the root do not exist
const c13RootPlain = `.,192.0.2.53,a.ns.root-servers.example
+a,192.0.2.1
&com,192.0.2.54,a.ns.com
'txt,root child
+localhost,127.0.0.1
`

const c13RootDeleg = `&,192.0.2.53,a.ns.example.com
&,,b.ns.example.com
+a.ns.example.com,192.0.2.60
.example.com,192.0.2.53,a
+www.example.com,192.0.2.1
`

type c13DB struct {
	name string
	h    *dnsserver.FBDNSDB
}

var (
	c13Once sync.Once
	c13DBs  []c13DB
	c13Err  error
)

// c13MaxName extends base (presentation form, trailing dot) with labels on
// the left up to exactly wire octets on the wire (255 is the protocol maximum).
func c13MaxName(base string, wire int) string {
	r := wire - (len(base) + 1)
	if base == "." {
		r = wire - 1
	}
	var labels []string
	for i := 0; r > 1; i++ {
		l := r - 1
		if l > 63 {
			l = 63
		}
		if r-(l+1) == 1 {
			l--
		}
		labels = append(labels, strings.Repeat(string(rune('a'+i%26)), l))
		r -= l + 1
	}
	if len(labels) == 0 {
		return base
	}
	if base == "." {
		return strings.Join(labels, ".") + "."
	}
	return strings.Join(labels, ".") + "." + base
}

func bigRRset() string {
	var sb strings.Builder
	// NS and MX targets of maximum length, a wildcard HTTPS record in alias form
	// (the additional-section lookup then uses the queried name itself)
	fmt.Fprintf(&sb, "@longmx.example.com,,%s,10\n", strings.TrimSuffix(c13MaxName("t.example.com.", 255), "."))
	fmt.Fprintf(&sb, "&longns.example.com,,%s\n", strings.TrimSuffix(c13MaxName("t.example.com.", 255), "."))
	fmt.Fprintf(&sb, "+%s,192.0.2.88\n", strings.TrimSuffix(c13MaxName("t.example.com.", 255), "."))
	sb.WriteString("H*.hw.example.com,.,300,,1,alpn=h2\n+*.hw.example.com,192.0.2.89\n")
	for i := 0; i < 40; i++ {
		fmt.Fprintf(&sb, "'big.example.com,%s-%02d,30\n", strings.Repeat("x", 100), i)
		fmt.Fprintf(&sb, "&manyns.example.com,192.0.2.%d,ns%d.manyns.example.com\n", i+100, i)
	}
	return sb.String()
}

func c13Setup() {
	texts := []struct{ name, text string }{
		{"normal", c13Normal + bigRRset()}, {"rootzone", c13RootZone}, {"rootplain", c13RootPlain}, {"rootdeleg", c13RootDeleg}, {"empty", ""},
	}
	for _, tx := range texts {
		dir := kit.Scratch("c13-" + tx.name)
		for _, b := range kit.AllBackends {
			p, err := kit.Compile([]byte(tx.text), 1, dir, b, kit.DefaultCompile)
			if err != nil {
				c13Err = fmt.Errorf("compile %s/%s: %w", tx.name, b, err)
				return
			}
			for _, cache := range []bool{false, true} {
				ho := kit.HandlerOpts{}
				nm := tx.name + "/" + b.String()
				if cache {
					if b != kit.RDBv2 && tx.name != "normal" {
						continue
					}
					ho.Cache = dnsserver.CacheConfig{Enabled: true, LRUSize: 64}
					nm += "/cache"
				}
				if !cache && tx.name == "normal" {
					// the cache switched off, its lifetime for weighted answers configured
					ho.Cache = dnsserver.CacheConfig{Enabled: false, WRSTimeout: 5}
					nm += "/wrs-timeout"
				}
				h, err := kit.OpenHandler(p, b, ho)
				if err != nil {
					c13Err = fmt.Errorf("open %s: %w", nm, err)
					return
				}
				c13DBs = append(c13DBs, c13DB{nm, h})
			}
		}
	}
}

type c13Case struct {
	DB     string `json:"db"`
	MsgHex string `json:"msg_hex"`
	Msg    string `json:"msg"`
	Remote string `json:"remote"`
	TCP    bool   `json:"tcp"`
}

var c13Names = []string{".", "com.", "example.com.", "www.example.com.", "WWW.Example.COM.", "x.wild.example.com.", "a!b.wild.example.com.", "sub.example.com.", "deep.er.sub.example.com.",
	"child.example.com.", "x.child.example.com.", "nope.example.com.", "big.example.com.", "manyns.example.com.", "x.manyns.example.com.", "svc.example.com.", "alias.example.com.", "x.cn.example.com.", "a.", "txt.", "zz.", "a.ns.example.com.",
	"other.net.", "1.2.0.192.in-addr.arpa.", "net.", "svcb.example.com.", "_dns.example.com.", "hw.example.com.", "longmx.example.com.", "longns.example.com.", "x.longns.example.com.", "t.example.com.", "localhost.", "nosuchtld."}

func genC13Name(t *rapid.T) string {
	switch rapid.IntRange(0, 9).Draw(t, "namekind") {
	case 0: // long name close to 255 bytes
		n := rapid.IntRange(1, 4).Draw(t, "nlong")
		var sb strings.Builder
		for i := 0; i < n; i++ {
			sb.WriteString(strings.Repeat(string(rune('a'+i)), rapid.SampledFrom([]int{1, 62, 63}).Draw(t, "lablen")))
			sb.WriteString(".")
		}
		s := sb.String() + "example.com."
		if len(s) > 253 {
			s = s[len(s)-253:]
			s = s[strings.IndexByte(s, '.')+1:]
		}
		return s
	case 1: // binary labels
		bs := rapid.SliceOfN(rapid.Byte(), 1, 6).Draw(t, "binlabel")
		var sb strings.Builder
		for _, c := range bs {
			fmt.Fprintf(&sb, "\\%03d", c)
		}
		return sb.String() + "." + rapid.SampledFrom(c13Names).Draw(t, "binbase")
	case 3: // exactly (or just below) the maximum of 255 octets on the wire
		return c13MaxName(rapid.SampledFrom(c13Names).Draw(t, "maxbase"), rapid.SampledFrom([]int{255, 255, 254, 253, 200}).Draw(t, "maxwire"))
	case 2:
		return rapid.SampledFrom([]string{"a", "*", "_x", "x-1", "0"}).Draw(t, "pre") + "." + rapid.SampledFrom(c13Names).Draw(t, "prebase")
	default:
		return rapid.SampledFrom(c13Names).Draw(t, "name")
	}
}

func genC13Msg(t *rapid.T) *dns.Msg {
	m := new(dns.Msg)
	m.Id = uint16(rapid.IntRange(0, 65535).Draw(t, "id"))
	m.Opcode = rapid.SampledFrom([]int{0, 0, 0, 0, 1, 2, 4, 5, 15}).Draw(t, "opcode")
	bits := rapid.IntRange(0, 127).Draw(t, "bits")
	if rapid.IntRange(0, 3).Draw(t, "plainhdr") != 0 {
		bits = bits & 0x10 // mostly only RD
	}
	m.Response = bits&1 != 0
	m.Authoritative = bits&2 != 0
	m.Truncated = bits&4 != 0
	m.RecursionAvailable = bits&8 != 0
	m.RecursionDesired = bits&16 != 0
	m.AuthenticatedData = bits&32 != 0
	m.CheckingDisabled = bits&64 != 0
	m.Rcode = rapid.SampledFrom([]int{0, 0, 0, 2, 5, 15}).Draw(t, "rcode")
	nq := rapid.SampledFrom([]int{1, 1, 1, 1, 2, 3}).Draw(t, "nq")
	for i := 0; i < nq; i++ {
		q := dns.Question{Name: genC13Name(t)}
		q.Qtype = uint16(rapid.SampledFrom([]int{1, 28, 2, 6, 15, 16, 5, 43, 255, 33, 12, 65, 64, 41, 0, 65535, 251, 252, 250, 249, 46, 48, 257}).Draw(t, "qtype"))
		q.Qclass = uint16(rapid.SampledFrom([]int{1, 1, 1, 1, 3, 4, 254, 255, 0, 65535}).Draw(t, "qclass"))
		m.Question = append(m.Question, q)
	}
	nopt := rapid.SampledFrom([]int{0, 1, 1, 1, 2}).Draw(t, "nopt")
	for i := 0; i < nopt; i++ {
		o := &dns.OPT{Hdr: dns.RR_Header{Name: ".", Rrtype: dns.TypeOPT}}
		o.SetUDPSize(uint16(rapid.SampledFrom([]int{0, 1, 511, 512, 513, 1232, 4096, 65535}).Draw(t, "udpsize")))
		o.SetVersion(uint8(rapid.SampledFrom([]int{0, 0, 0, 0, 1, 2, 255}).Draw(t, "version")))
		if rapid.Bool().Draw(t, "do") {
			o.SetDo()
		}
		if rapid.IntRange(0, 5).Draw(t, "extrcode") == 0 {
			o.SetExtendedRcode(uint16(rapid.SampledFrom([]int{16, 23, 4095}).Draw(t, "extrcodev")))
		}
		no := rapid.IntRange(0, 4).Draw(t, "nopts")
		for j := 0; j < no; j++ {
			switch rapid.IntRange(0, 6).Draw(t, "optkind") {
			case 0, 1, 2:
				e := &dns.EDNS0_SUBNET{Code: dns.EDNS0SUBNET}
				fam := rapid.SampledFrom([]int{1, 1, 2, 2, 0}).Draw(t, "fam")
				e.Family = uint16(fam)
				switch fam {
				case 1:
					e.SourceNetmask = uint8(rapid.IntRange(0, 32).Draw(t, "src4"))
					e.Address = net.ParseIP(rapid.SampledFrom([]string{"10.1.2.3", "10.1.2.255", "0.0.0.0", "255.255.255.255", "192.0.2.1"}).Draw(t, "addr4")).To4()
				case 2:
					e.SourceNetmask = uint8(rapid.IntRange(0, 128).Draw(t, "src6"))
					e.Address = net.ParseIP(rapid.SampledFrom([]string{"2001:db8::1", "::", "ffff:ffff:ffff:ffff:ffff:ffff:ffff:ffff", "::ffff:10.1.2.3", "2001:db8:ffff::"}).Draw(t, "addr6")).To16()
				default:
					e.SourceNetmask = 0
				}
				e.SourceScope = uint8(rapid.SampledFrom([]int{0, 0, 0, 24, 255}).Draw(t, "scope"))
				o.Option = append(o.Option, e)
			case 3:
				o.Option = append(o.Option, &dns.EDNS0_COOKIE{Code: dns.EDNS0COOKIE, Cookie: "0123456789abcdef"})
			case 4:
				o.Option = append(o.Option, &dns.EDNS0_NSID{Code: dns.EDNS0NSID, Nsid: ""})
			case 5:
				o.Option = append(o.Option, &dns.EDNS0_PADDING{Padding: make([]byte, rapid.IntRange(0, 40).Draw(t, "pad"))})
			default:
				o.Option = append(o.Option, &dns.EDNS0_LOCAL{Code: uint16(rapid.SampledFrom([]int{65001, 65534, 20, 0}).Draw(t, "localcode")), Data: rapid.SliceOfN(rapid.Byte(), 0, 8).Draw(t, "localdata")})
			}
		}
		m.Extra = append(m.Extra, o)
	}
	return m
}

// c13Weighted: in the fixed databases only www.example.com has several
// addresses per family.
func c13Weighted(section, owner string, typ uint16) bool {
	return (typ == 1 || typ == 28) && (owner == "www.example.com" || strings.HasSuffix(owner, "manyns.example.com") || owner == "a.ns.example.com")
}

func stripUnknownOptions(m *dns.Msg) (*dns.Msg, bool) {
	c := m.Copy()
	changed := false
	for _, rr := range c.Extra {
		if o, ok := rr.(*dns.OPT); ok {
			var keep []dns.EDNS0
			for _, e := range o.Option {
				if _, isECS := e.(*dns.EDNS0_SUBNET); isECS {
					keep = append(keep, e)
				} else {
					changed = true
				}
			}
			o.Option = keep
		}
	}
	return c, changed
}

// c13HangLimit: a query is answered in microseconds; one that has not returned
// after this long is stuck in a loop (its goroutine is abandoned).
const c13HangLimit = 30 * time.Second

func c13Serve(h *dnsserver.FBDNSDB, req *dns.Msg, remote string, tcp bool) (w *kit.Writer, rc int, err error, pan interface{}) {
	w = &kit.Writer{Remote: remote, TCP: tcp}
	done := make(chan struct{})
	go func() {
		defer close(done)
		defer func() {
			if r := recover(); r != nil {
				pan = r
			}
		}()
		rc, err = h.ServeDNS(dnsserver.WithMaxAnswer(context.Background(), 2), w, req)
	}()
	select {
	case <-done:
	case <-time.After(c13HangLimit):
		return &kit.Writer{Remote: remote, TCP: tcp}, 0, nil, fmt.Sprintf("handler did not return within %v (endless loop)", c13HangLimit)
	}
	return
}

func c13Check(t kit.Fataler, d c13DB, wire []byte, remote string, tcp bool, record bool) {
	req := new(dns.Msg)
	if err := req.Unpack(wire); err != nil {
		return
	}
	cs := c13Case{DB: d.name, MsgHex: hex.EncodeToString(wire), Msg: strings.ReplaceAll(req.String(), "\n", " | "), Remote: remote, TCP: tcp}
	fail := func(key, format string, a ...interface{}) {
		kit.Fail(t, "C13", key, cs, "%s: "+format+"\nquery: %s", append([]interface{}{d.name}, append(a, cs.Msg)...)...)
	}
	w, _, _, pan := c13Serve(d.h, req.Copy(), remote, tcp)
	if pan != nil {
		if s, ok := pan.(string); ok && strings.Contains(s, "did not return") {
			fail("handler-hang", "%s", s)
		}
		fail("panic", "handler panicked: %v", pan)
	}
	if len(w.Raw) > 0 {
		fail("raw-write", "handler used Write() directly")
	}
	if len(w.Msgs) > 1 {
		fail("two-responses", "handler wrote %d messages", len(w.Msgs))
	}
	opt := req.IsEdns0()
	if len(w.Msgs) == 0 {
		if record {
			kit.Class("no-reply")
		}
		return
	}
	out := w.Msgs[0]
	buf, err := out.Pack()
	if err != nil {
		fail("unpackable-response", "response does not pack: %v", err)
	}
	resp := new(dns.Msg)
	if err := resp.Unpack(buf); err != nil {
		fail("unpackable-response", "response does not unpack: %v", err)
	}
	if resp.Id != req.Id {
		fail("id-mismatch", "response id %d, query id %d", resp.Id, req.Id)
	}
	if !resp.Response {
		fail("qr-clear", "QR bit not set")
	}
	badvers := opt != nil && opt.Version() != 0
	if badvers {
		if resp.Rcode != dns.RcodeBadVers {
			fail("badvers-missing", "EDNS version %d answered with rcode %s", opt.Version(), dns.RcodeToString[resp.Rcode])
		}
		ro := resp.IsEdns0()
		if ro == nil || ro.Version() != 0 {
			fail("badvers-opt", "BADVERS reply without a version-0 OPT")
		}
	} else if resp.Rcode == dns.RcodeBadVers {
		fail("badvers-spurious", "BADVERS for a version-0 / OPT-less query")
	}
	if !(badvers && len(resp.Question) == 0) {
		if len(resp.Question) < 1 || len(req.Question) < 1 || resp.Question[0] != req.Question[0] {
			fail("question-mismatch", "response question %v, query question %v", resp.Question, req.Question)
		}
	}
	if !tcp {
		limit := 512
		if opt != nil && int(opt.UDPSize()) > limit {
			limit = int(opt.UDPSize())
		}
		if len(buf) > limit && !resp.Truncated {
			fail("oversize-untruncated", "UDP response of %d bytes exceeds the advertised %d without TC", len(buf), limit)
		}
	}
	// unknown EDNS options are ignored: same message without them
	if !badvers {
		if stripped, changed := stripUnknownOptions(req); changed {
			w2, _, _, pan2 := c13Serve(d.h, stripped, remote, tcp)
			if pan2 != nil {
				fail("panic", "handler panicked on the option-stripped query: %v", pan2)
			}
			var r2 *dns.Msg
			if len(w2.Msgs) > 0 {
				r2 = w2.Msgs[0]
			}
			a, b := kit.Normal(out, c13Weighted), kit.Normal(r2, c13Weighted)
			if a != b {
				fail("unknown-option-changes-answer", "response changes when unknown EDNS options are removed:\nwith: %s\nwithout: %s", a, b)
			}
		}
	}
	if record {
		cls := dns.RcodeToString[resp.Rcode]
		if resp.Truncated {
			cls += "+TC"
		}
		kit.Class("reply:" + cls)
		q := req.Question[0]
		nlabels := dns.CountLabel(q.Name)
		if opt != nil || q.Qclass != 1 || q.Qtype == 43 || q.Qtype == 255 || nlabels <= 1 {
			optc := "noopt"
			if opt != nil {
				optc = fmt.Sprintf("opt-v%d-n%d", opt.Version(), len(opt.Option))
			}
			kit.NonTrivial(fmt.Sprintf("%s|%d|%d|%d|%s|%s|%v", d.name, q.Qtype, q.Qclass, nlabels, optc, q.Name, tcp))
		}
	}
}

func TestC13(t *testing.T) {
	c13Once.Do(c13Setup)
	if c13Err != nil {
		t.Fatalf("setup: %v", c13Err)
	}
	if f := kit.ReplayFile(); f != "" {
		var c c13Case
		kit.LoadReplay(t, f, &c)
		wire, _ := hex.DecodeString(c.MsgHex)
		for _, d := range c13DBs {
			if d.name == c.DB {
				c13Check(t, d, wire, c.Remote, c.TCP, false)
			}
		}
		kit.Eval()
		return
	}
	// fixed hostile seeds first (also the native-fuzz seed corpus)
	for _, s := range c13SeedMsgs() {
		wire, err := s.Pack()
		if err != nil {
			continue
		}
		for _, d := range c13DBs {
			c13Check(t, d, wire, "10.1.2.3", false, true)
			c13Check(t, d, wire, "2001:db8::7", true, true)
			kit.EvalN(2)
		}
	}
	kit.SetRapid(kit.N(160000, 4000000))
	rapid.Check(t, kit.Prop("C13", func(t *rapid.T) {
		m := genC13Msg(t)
		wire, err := m.Pack()
		if err != nil {
			kit.Class("generator:unpackable")
			t.Skip("message does not pack")
		}
		d := rapid.SampledFrom(c13DBs).Draw(t, "db")
		remote := rapid.SampledFrom([]string{"10.1.2.3", "192.0.2.200", "2001:db8::7", "::1"}).Draw(t, "remote")
		tcp := rapid.IntRange(0, 3).Draw(t, "tcp") == 0
		kit.Case(c13Case{DB: d.name, MsgHex: hex.EncodeToString(wire), Remote: remote, TCP: tcp})
		c13Check(t, d, wire, remote, tcp, true)
		kit.Sample(map[string]interface{}{"db": d.name, "query": strings.ReplaceAll(m.String(), "\n", " | "), "tcp": tcp})
	}))
}

func c13SeedMsgs() []*dns.Msg {
	mk := func(name string, qt uint16, f func(m *dns.Msg)) *dns.Msg {
		m := new(dns.Msg)
		m.SetQuestion(name, qt)
		if f != nil {
			f(m)
		}
		return m
	}
	return []*dns.Msg{
		mk(".", dns.TypeDS, nil),
		mk(".", dns.TypeNS, nil),
		mk(".", dns.TypeANY, func(m *dns.Msg) { m.SetEdns0(512, true) }),
		mk("com.", dns.TypeDS, nil),
		mk("sub.example.com.", dns.TypeDS, nil),
		mk("big.example.com.", dns.TypeTXT, nil),
		mk("big.example.com.", dns.TypeTXT, func(m *dns.Msg) { m.SetEdns0(1232, false) }),
		mk("x.manyns.example.com.", dns.TypeA, nil),
		mk("www.example.com.", dns.TypeA, func(m *dns.Msg) { m.SetEdns0(4096, false); m.IsEdns0().SetVersion(1) }),
		mk(c13MaxName("example.com.", 255), dns.TypeA, nil),
		mk(c13MaxName("hw.example.com.", 255), dns.TypeHTTPS, nil),
		mk(c13MaxName(".", 255), dns.TypeA, nil),
		mk("longmx.example.com.", dns.TypeMX, nil),
		mk("x.longns.example.com.", dns.TypeA, nil),
		mk("nosuchtld.", dns.TypeA, nil),
	}
}
