package props

import (
	"encoding/binary"
	"fmt"
	"math"
	"net"
	"sort"
	"strings"
	"sync"
	"testing"

	"github.com/facebookincubator/dns/dnsrocks/db"
	"github.com/facebookincubator/dns/dnsrocks/dnsserver"
	"github.com/miekg/dns"
	"pgregory.net/rapid"

	"verif/kit"
)

// C11: weighted address selection is bounded, sound and proportional.

type c11Cand struct {
	IP     string `json:"ip"`
	Weight uint32 `json:"weight"`
	TTL    uint32 `json:"ttl"`
}

type c11Case struct {
	Part   string     `json:"part"`
	Max    int        `json:"max"`
	V4     []c11Cand  `json:"v4"`
	V6     []c11Cand  `json:"v6"`
	World  *kit.World `json:"world,omitempty"`
	Query  *kit.Query `json:"query,omitempty"`
	Detail string     `json:"detail,omitempty"`
	Cache  bool       `json:"cache,omitempty"`   // end to end: response cache enabled (WRSTimeout 0: weighted answers are not kept)
	MXPerm []int      `json:"mx_perm,omitempty"` // end to end: order of the three MX lines of the apex
}

var c11Weights = []uint32{0, 1, 2, 3, 10, 1000, 1 << 31, 1<<32 - 1}

func c11Row(c c11Cand) []byte {
	ip := net.ParseIP(c.IP)
	row := make([]byte, 0, 40)
	typ := uint16(1)
	addr := []byte(ip.To4())
	if addr == nil {
		typ = 28
		addr = []byte(ip.To16())
	}
	row = append(row, byte(typ>>8), byte(typ), '=')
	var b4 [4]byte
	binary.BigEndian.PutUint32(b4[:], c.TTL)
	row = append(row, b4[:]...)
	row = append(row, 0, 0, 0, 0, 0, 0, 0, 0)
	binary.BigEndian.PutUint32(b4[:], c.Weight)
	row = append(row, b4[:]...)
	return append(row, addr...)
}

func genCands(t *rapid.T, tag string, v6 bool, min int) []c11Cand {
	n := rapid.IntRange(min, 12).Draw(t, tag+"-n")
	out := make([]c11Cand, n)
	for i := range out {
		ip := fmt.Sprintf("192.0.2.%d", i+1)
		if v6 {
			ip = fmt.Sprintf("2001:db8::%x", i+1)
		}
		out[i] = c11Cand{IP: ip, Weight: rapid.SampledFrom(c11Weights).Draw(t, tag+"-w"), TTL: uint32(rapid.SampledFrom([]int{0, 60, 300}).Draw(t, tag+"-ttl"))}
	}
	return out
}

// c11Draw feeds the candidates to a fresh Wrs and returns the served records.
func c11Draw(t kit.Fataler, cs c11Case) (a, aaaa []dns.RR) {
	w := db.Wrs{MaxAnswers: cs.Max}
	for _, c := range append(append([]c11Cand{}, cs.V4...), cs.V6...) {
		row := c11Row(c)
		rec, err := db.ExtractRRFromRow(row, false)
		if err != nil {
			kit.Fail(t, "C11", "row-rejected", cs, "ExtractRRFromRow: %v", err)
		}
		if err := w.Add(rec, row); err != nil {
			kit.Fail(t, "C11", "add-error", cs, "Wrs.Add: %v", err)
		}
	}
	a, err := w.ARecord("n.example.com.", dns.ClassINET)
	if err != nil {
		kit.Fail(t, "C11", "record-error", cs, "ARecord: %v", err)
	}
	aaaa, err = w.AAAARecord("n.example.com.", dns.ClassINET)
	if err != nil {
		kit.Fail(t, "C11", "record-error", cs, "AAAARecord: %v", err)
	}
	return a, aaaa
}

func rrIP(rr dns.RR) string {
	switch x := rr.(type) {
	case *dns.A:
		return x.A.String()
	case *dns.AAAA:
		return x.AAAA.String()
	}
	return "?"
}

// c11Valid checks the bounded / sound part for one family.
func c11Valid(t kit.Fataler, cs c11Case, fam string, cands []c11Cand, got []dns.RR) {
	pos := 0
	byIP := map[string]c11Cand{}
	for _, c := range cands {
		if c.Weight > 0 {
			pos++
		}
		byIP[net.ParseIP(c.IP).String()] = c
	}
	want := pos
	if want > cs.Max {
		want = cs.Max
	}
	if len(got) != want {
		cs.Detail = fmt.Sprintf("%s: got %d records", fam, len(got))
		kit.Fail(t, "C11", "count/"+fam, cs, "%s: %d records served, want min(max=%d, positive=%d)=%d", fam, len(got), cs.Max, pos, want)
	}
	seen := map[string]bool{}
	for _, rr := range got {
		ip := rrIP(rr)
		c, ok := byIP[ip]
		switch {
		case !ok:
			kit.Fail(t, "C11", "not-a-candidate/"+fam, cs, "%s: served %s which was never declared", fam, ip)
		case c.Weight == 0:
			kit.Fail(t, "C11", "weight-zero-served/"+fam, cs, "%s: served %s which has weight 0", fam, ip)
		case seen[ip]:
			kit.Fail(t, "C11", "repetition/"+fam, cs, "%s: %s served twice", fam, ip)
		case rr.Header().Ttl != c.TTL:
			kit.Fail(t, "C11", "ttl/"+fam, cs, "%s: %s served with ttl %d, declared %d", fam, ip, rr.Header().Ttl, c.TTL)
		}
		seen[ip] = true
	}
}

// poissonUpper returns P(X >= k) for X ~ Poisson(mean).
func poissonUpper(mean float64, k int) float64 {
	if k <= 0 {
		return 1
	}
	p := math.Exp(-mean)
	cdf := 0.0
	for i := 0; i < k; i++ {
		cdf += p
		p *= mean / float64(i+1)
	}
	if cdf > 1 {
		cdf = 1
	}
	return 1 - cdf
}

// chi-square critical values at p = 1e-9 for df = 1..11
var chi2Crit = []float64{0, 37.33, 41.45, 44.85, 47.98, 50.93, 53.75, 56.47, 59.11, 61.68, 64.20, 66.67}

// c11Proportional checks observed pick counts against weights.
func c11Proportional(t kit.Fataler, cs c11Case, cands []c11Cand, counts map[string]int, n int) {
	var sum float64
	for _, c := range cands {
		sum += float64(c.Weight)
	}
	chi := 0.0
	df := -1
	detail := ""
	for _, c := range cands {
		if c.Weight == 0 {
			continue
		}
		ip := net.ParseIP(c.IP).String()
		exp := float64(n) * float64(c.Weight) / sum
		obs := counts[ip]
		detail += fmt.Sprintf(" %s(w=%d): %d/%.1f", ip, c.Weight, obs, exp)
		if exp < 10 {
			// exact tail instead of chi-square for tiny expectations
			if p := poissonUpper(exp, obs); p < 1e-9 {
				cs.Detail = detail
				kit.Fail(t, "C11", "proportion-rare-overpicked", cs, "candidate %s (weight %d of %.0f) picked %d times in %d draws, expected %.4f (tail probability %.2g)", ip, c.Weight, sum, obs, n, exp, p)
			}
			continue
		}
		chi += (float64(obs) - exp) * (float64(obs) - exp) / exp
		df++
	}
	if df >= 1 && df < len(chi2Crit) && chi > chi2Crit[df] {
		cs.Detail = detail
		kit.Fail(t, "C11", "proportion-chi-square", cs, "pick frequencies are not proportional to weights: chi2=%.1f (df=%d, limit %.1f at p=1e-9):%s", chi, df, chi2Crit[df], detail)
	}
}

func c11Signature(cs c11Case) (string, bool) {
	cls := func(c []c11Cand) (string, bool) {
		var ws []int
		zero, pos := 0, 0
		distinct := map[uint32]bool{}
		for _, x := range c {
			ws = append(ws, int(x.Weight))
			if x.Weight == 0 {
				zero++
			} else {
				pos++
				distinct[x.Weight] = true
			}
		}
		sort.Ints(ws)
		return fmt.Sprint(ws), len(distinct) >= 2 || zero > 0 || pos > cs.Max
	}
	a, nta := cls(cs.V4)
	b, ntb := cls(cs.V6)
	return fmt.Sprintf("%s|%d|%s|%s", cs.Part, cs.Max, a, b), nta || ntb
}

func c11Unit(t kit.Fataler, cs c11Case) {
	a, aaaa := c11Draw(t, cs)
	c11Valid(t, cs, "A", cs.V4, a)
	c11Valid(t, cs, "AAAA", cs.V6, aaaa)
}

func c11Freq(t kit.Fataler, cs c11Case, n int) {
	counts := map[string]int{}
	for i := 0; i < n; i++ {
		a, aaaa := c11Draw(t, cs)
		for _, rr := range append(a, aaaa...) {
			counts[rrIP(rr)]++
		}
	}
	c11Proportional(t, cs, cs.V4, counts, n)
	if len(cs.V6) > 0 {
		c11Proportional(t, cs, cs.V6, counts, n)
	}
}

// ---- end to end -------------------------------------------------------------

func c11World(v4, v6 []c11Cand, wild bool, tagged bool, mxPerm []int) *kit.World {
	w := &kit.World{Serial: 1}
	add := func(l kit.Line) { w.Lines = append(w.Lines, l) }
	add(ln('.', "example.com", func(l *kit.Line) { l.X = "a" }))
	add(ln('&', "sub.example.com", func(l *kit.Line) { l.X = "ns.sub.example.com" }))
	// three MX records in a drawn order: the weighted exchanger twice (another
	// preference: still one address per family for that target) and an exchanger
	// with a single address (so the last target of the response may be either)
	mx := []kit.Line{
		ln('@', "example.com", func(l *kit.Line) { l.X = "mail.example.com" }),
		ln('@', "example.com", func(l *kit.Line) { l.X = "mail.example.com"; l.N[0] = 20 }),
		ln('@', "example.com", func(l *kit.Line) { l.X = "one.example.com"; l.N[0] = 30 }),
	}
	if len(mxPerm) != 3 {
		mxPerm = []int{0, 1, 2}
	}
	for _, i := range mxPerm {
		add(mx[i%3])
	}
	add(ln('+', "one.example.com", func(l *kit.Line) { l.IP = "192.0.2.210" }))
	if !wild {
		// an exchanger next to the weighted addresses (ANY answers then carry both)
		add(ln('@', "n.example.com", func(l *kit.Line) { l.X = "mail.example.com" }))
	}
	add(ln('+', "zero.example.com", func(l *kit.Line) { l.IP = "192.0.2.200"; l.N[0] = 0 }))
	add(ln('+', "zero.example.com", func(l *kit.Line) { l.IP = "192.0.2.201"; l.N[0] = 0 }))
	for i, c := range append(append([]c11Cand{}, v4...), v6...) {
		for _, owner := range []string{"n.example.com", "ns.sub.example.com", "mail.example.com"} {
			c := c
			l := ln('+', owner, func(l *kit.Line) { l.IP = c.IP; l.N[0] = int64(c.Weight); l.TTL = int64(c.TTL) })
			if owner == "n.example.com" {
				l.Wild = wild
				if tagged && i%2 == 0 {
					l.Loc = "l1"
				}
			}
			add(l)
		}
	}
	add(kit.Line{K: '%', Loc: "l1", CIDR: "0.0.0.0/0", TTL: -1})
	add(kit.Line{K: '%', Loc: "l1", CIDR: "::/0", TTL: -1})
	return w
}

func c11EndToEnd(t kit.Fataler, cs c11Case, wild, tagged bool, rounds int) {
	w := c11World(cs.V4, cs.V6, wild, tagged, cs.MXPerm)
	cs.World = w
	ho := kit.HandlerOpts{}
	if cs.Cache {
		ho.Cache = dnsserver.CacheConfig{Enabled: true, LRUSize: 64}
	}
	served, cleanup, err := kit.ServeAll(w.Text(), w.Serial, kit.AllBackends, kit.DefaultCompile, ho)
	if err != nil {
		kit.Fail(t, "C11", "compile-error", cs, "compile/open: %v", err)
		return
	}
	defer cleanup()
	name := "n.example.com."
	if wild {
		name = "x.n.example.com."
	}
	client := kit.Client{Resolver: "10.0.0.1"}
	for _, s := range served {
		csb := cs
		csb.Part = "e2e/" + s.Backend.String()
		for _, typ := range []uint16{1, 28} {
			cands, fam := cs.V4, "A"
			if typ == 28 {
				cands, fam = cs.V6, "AAAA"
			}
			q := kit.Query{Name: name, Type: typ, Class: 1, MaxAns: cs.Max}
			csb.Query = &q
			counts := map[string]int{}
			for i := 0; i < rounds; i++ {
				resp, _, err := kit.Ask(s.H, q, client)
				if err != nil || resp == nil {
					kit.Fail(t, "C11", "no-response", csb, "query failed: %v", err)
				}
				c11Valid(t, csb, fam+"/answer", cands, resp.Answer)
				pos := 0
				for _, c := range cands {
					if c.Weight > 0 {
						pos++
					}
				}
				if len(cands) > 0 && pos == 0 {
					// the name exists: NOERROR/NODATA with SOA, not NXDOMAIN
					if resp.Rcode != dns.RcodeSuccess || len(resp.Ns) != 1 || resp.Ns[0].Header().Rrtype != dns.TypeSOA {
						kit.Fail(t, "C11", "weight-zero-name-not-nodata", csb, "name with only weight-0 %s records answered %s", fam, kit.Brief(resp))
					}
				}
				for _, rr := range resp.Answer {
					counts[rrIP(rr)]++
				}
			}
			if cs.Max == 1 && rounds >= 1000 {
				c11Proportional(t, csb, cands, counts, rounds)
			}
		}
		// additional section: NS and MX targets, at most one per family per target
		addQs := []kit.Query{{Name: "x.sub.example.com.", Type: 1, Class: 1, MaxAns: cs.Max}, {Name: "example.com.", Type: 15, Class: 1, MaxAns: cs.Max}}
		if !wild {
			addQs = append(addQs, kit.Query{Name: "n.example.com.", Type: 255, Class: 1, MaxAns: cs.Max})
		}
		for _, q := range addQs {
			q := q
			csb.Query = &q
			counts := map[string]int{}
			for i := 0; i < rounds; i++ {
				resp, _, err := kit.Ask(s.H, q, client)
				if err != nil || resp == nil {
					kit.Fail(t, "C11", "no-response", csb, "query failed: %v", err)
				}
				// per target: the weighted one (ns.sub / mail) and the single-address one
				var a, aaaa, oneA []dns.RR
				for _, rr := range resp.Extra {
					if strings.EqualFold(rr.Header().Name, "one.example.com.") {
						if rr.Header().Rrtype == dns.TypeA {
							oneA = append(oneA, rr)
						}
						continue
					}
					switch rr.Header().Rrtype {
					case dns.TypeA:
						a = append(a, rr)
					case dns.TypeAAAA:
						aaaa = append(aaaa, rr)
					}
				}
				one := csb
				one.Max = 1
				c11Valid(t, one, "A/additional", cs.V4, a)
				c11Valid(t, one, "AAAA/additional", cs.V6, aaaa)
				if q.Type == 15 && (len(oneA) != 1 || rrIP(oneA[0]) != "192.0.2.210") {
					kit.Fail(t, "C11", "count/A/additional-single", csb, "MX target one.example.com (one address) has %d A records in the additional section", len(oneA))
				}
				for _, rr := range append(a, aaaa...) {
					counts[rrIP(rr)]++
				}
			}
			if rounds >= 1000 {
				c11Proportional(t, csb, cs.V4, counts, rounds)
				c11Proportional(t, csb, cs.V6, counts, rounds)
			}
		}
		// a name whose only addresses have weight 0 exists: NODATA, never NXDOMAIN
		resp, _, _ := kit.Ask(s.H, kit.Query{Name: "zero.example.com.", Type: 1, Class: 1, MaxAns: cs.Max}, client)
		if resp == nil || resp.Rcode != dns.RcodeSuccess || len(resp.Answer) != 0 || len(resp.Ns) != 1 {
			kit.Fail(t, "C11", "weight-zero-name-not-nodata", csb, "zero.example.com A answered %s", kit.Brief(resp))
		}
	}
}

func TestC11(t *testing.T) {
	if f := kit.ReplayFile(); f != "" {
		var c c11Case
		kit.LoadReplay(t, f, &c)
		db.SeedWRS(int64(kit.RapidSeed(99)))
		switch {
		case c.Part == "unit":
			for i := 0; i < 2000; i++ {
				c11Unit(t, c)
			}
		case c.Part == "freq":
			c11Freq(t, c, 20000)
		default:
			c11EndToEnd(t, c, false, false, 2000)
			c11EndToEnd(t, c, true, true, 2000)
		}
		kit.Eval()
		return
	}
	db.SeedWRS(int64(kit.RapidSeed(1000)))
	// (a) bounded and sound, directly on db.Wrs
	kit.SetRapid(kit.N(160000, 4000000))
	rapid.Check(t, kit.Prop("C11", func(t *rapid.T) {
		cs := c11Case{Part: "unit", Max: rapid.IntRange(1, 8).Draw(t, "max"), V4: genCands(t, "v4", false, 0), V6: genCands(t, "v6", true, 0)}
		kit.Case(cs)
		c11Unit(t, cs)
		if sig, nt := c11Signature(cs); nt {
			kit.NonTrivial(sig)
		}
		kit.Class(fmt.Sprintf("unit:max%d", cs.Max))
		kit.Sample(cs)
	}))
	// (c) proportionality for one pick out of 2..5 positive candidates
	kit.SetRapid(kit.N(3200, 80000))
	rapid.Check(t, kit.Prop("C11", func(t *rapid.T) {
		k := rapid.IntRange(2, 5).Draw(t, "k")
		cs := c11Case{Part: "freq", Max: 1}
		for i := 0; i < k; i++ {
			cs.V4 = append(cs.V4, c11Cand{IP: fmt.Sprintf("192.0.2.%d", i+1), Weight: rapid.SampledFrom(c11Weights[1:]).Draw(t, "w"), TTL: 60})
		}
		if rapid.Bool().Draw(t, "withzero") {
			cs.V4 = append(cs.V4, c11Cand{IP: "192.0.2.99", Weight: 0, TTL: 60})
		}
		if rapid.Bool().Draw(t, "withv6") {
			cs.V6 = []c11Cand{{IP: "2001:db8::1", Weight: rapid.SampledFrom(c11Weights[1:]).Draw(t, "w6a"), TTL: 60}, {IP: "2001:db8::2", Weight: rapid.SampledFrom(c11Weights[1:]).Draw(t, "w6b"), TTL: 60}}
		}
		kit.Case(cs)
		c11Freq(t, cs, 20000)
		sig, _ := c11Signature(cs)
		kit.NonTrivial(sig)
		kit.Class(fmt.Sprintf("freq:k%d", k))
	}))
	// (b) end to end through the three backends (answer and additional sections)
	kit.SetRapid(kit.N(48, 800))
	rapid.Check(t, kit.Prop("C11", func(t *rapid.T) {
		cs := c11Case{Part: "e2e", Max: rapid.SampledFrom([]int{1, 1, 2, 3, 8}).Draw(t, "max")}
		cs.V4 = genCands(t, "v4", false, 1)
		if len(cs.V4) > 8 {
			cs.V4 = cs.V4[:8]
		}
		cs.V6 = genCands(t, "v6", true, 0)
		if len(cs.V6) > 8 {
			cs.V6 = cs.V6[:8]
		}
		wild, tagged := rapid.Bool().Draw(t, "wild"), rapid.Bool().Draw(t, "tagged")
		cs.Cache = rapid.Bool().Draw(t, "cache")
		cs.MXPerm = rapid.Permutation([]int{0, 1, 2}).Draw(t, "mxperm")
		rounds := 60
		if rapid.IntRange(0, 3).Draw(t, "long") == 0 {
			rounds = 2000
		}
		kit.Case(cs)
		c11EndToEnd(t, cs, wild, tagged, rounds)
		sig, _ := c11Signature(cs)
		kit.NonTrivial("e2e|" + sig + fmt.Sprint(wild, tagged))
		kit.Class(fmt.Sprintf("e2e:max%d-rounds%d", cs.Max, rounds))
		kit.Class(fmt.Sprintf("e2e:cache=%v", cs.Cache))
	}))
	// (d) concurrent use of the shared generator: totals stay proportional
	if kit.Shard() == 0 {
		cs := c11Case{Part: "freq", Max: 1, V4: []c11Cand{{IP: "192.0.2.1", Weight: 1, TTL: 1}, {IP: "192.0.2.2", Weight: 3, TTL: 1}, {IP: "192.0.2.3", Weight: 0, TTL: 1}}}
		var mu sync.Mutex
		counts := map[string]int{}
		var wg sync.WaitGroup
		rec := &recorder{}
		for g := 0; g < 16; g++ {
			wg.Add(1)
			go func() {
				defer wg.Done()
				local := map[string]int{}
				for i := 0; i < 5000; i++ {
					a, _ := c11Draw(rec, cs)
					for _, rr := range a {
						local[rrIP(rr)]++
					}
				}
				mu.Lock()
				for k, v := range local {
					counts[k] += v
				}
				mu.Unlock()
			}()
		}
		wg.Wait()
		cs.Detail = "16 goroutines x 5000 draws"
		c11Proportional(t, cs, cs.V4, counts, 80000)
		kit.EvalN(1)
		kit.Class("concurrent-draws")
	}
}

// TestC11Race is the part of C11 that runs under the race detector (registered
// as "race_test" of C11): 16 goroutines draw concurrently from the shared
// weighted-random source; the detector reports unsynchronised access, and the
// totals must stay proportional.
func TestC11Race(t *testing.T) {
	db.SeedWRS(int64(kit.RapidSeed(2000)))
	cs := c11Case{Part: "freq", Max: 2, Detail: "race build: 16 goroutines x 4000 draws"}
	cs.V4 = []c11Cand{{IP: "192.0.2.1", Weight: 1, TTL: 1}, {IP: "192.0.2.2", Weight: 3, TTL: 1}, {IP: "192.0.2.3", Weight: 0, TTL: 1}, {IP: "192.0.2.4", Weight: 4, TTL: 1}}
	cs.V6 = []c11Cand{{IP: "2001:db8::1", Weight: 5, TTL: 1}, {IP: "2001:db8::2", Weight: 5, TTL: 1}}
	var wg sync.WaitGroup
	var mu sync.Mutex
	var failures []string
	for g := 0; g < 16; g++ {
		wg.Add(1)
		go func() {
			defer wg.Done()
			rec := &recorder{}
			for i := 0; i < 4000; i++ {
				if rec.try(func() { c11Unit(rec, cs) }) {
					mu.Lock()
					failures = append(failures, rec.msg)
					mu.Unlock()
					return
				}
			}
		}()
	}
	wg.Wait()
	kit.ClearFailure("C11")
	if len(failures) > 0 {
		kit.Fail(t, "C11", "concurrent-draw-invalid", cs, "under concurrent use a draw became invalid: %s", failures[0])
	}
	kit.EvalN(64000)
	kit.Class("race-build-concurrent-draws")
	kit.NonTrivial("race-build-concurrent-draws")
}
