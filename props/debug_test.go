package props

import (
	"fmt"
	"os"
	"testing"

	"verif/kit"
)

// TestDebug prints what each backend answers for a saved C01-style case.
func TestDebug(t *testing.T) {
	f := os.Getenv("VERIF_DEBUG")
	if f == "" {
		t.Skip()
	}
	var c c01Case
	kit.LoadReplay(t, f, &c)
	w := c.World
	served, cleanup, err := kit.ServeAll(w.Text(), w.Serial, kit.AllBackends, kit.DefaultCompile, kit.HandlerOpts{})
	if err != nil {
		t.Fatal(err)
	}
	defer cleanup()
	lr := w.Locate(c.Query.Name, c.Client)
	e := w.Resolve(c.Query, lr.Loc)
	fmt.Printf("oracle: loc=%q class=%s zone=%s rcode=%d aa=%v answer=%d ns=%d\n", lr.Loc[:], e.Class, e.Zone, e.Rcode, e.AA, len(e.Answer), len(e.Ns))
	for _, s := range served {
		resp, rc, err := kit.Ask(s.H, c.Query, c.Client)
		fmt.Printf("%s: rc=%d err=%v %s\n", s.Backend, rc, err, kit.Brief(resp))
		r, _ := s.H.AcquireReader()
		q := kit.NameWire(kit.CanonName(c.Query.Name))
		_, loc, err := r.FindLocation(q, kit.BuildMsg(c.Query, c.Client, 1), c.Client.Resolver)
		fmt.Printf("   FindLocation: %+v %v\n", loc, err)
		r.Close()
	}
}
