package props

import (
	"fmt"
	"os"
	"path/filepath"
	"sort"
	"strings"
	"sync"
	"testing"
	"time"

	"github.com/coredns/coredns/request"
	"github.com/facebookincubator/dns/dnsrocks/dnsserver"
	"github.com/facebookincubator/dns/dnsrocks/metrics"
	"github.com/miekg/dns"
	"pgregory.net/rapid"

	"verif/kit"
)

// C19: exported statistics and the query log tell the truth.

// ---- (a) sliding window -----------------------------------------------------

type c19Add struct {
	AtMs  int   `json:"at_ms"`
	Value int64 `json:"value"`
}

type c19History struct {
	LifetimeMs int      `json:"lifetime_ms"`
	Adds       []c19Add `json:"adds"`
	ReadsMs    []int    `json:"reads_ms"`
	ViaStats   bool     `json:"via_stats"`
}

type c19Obs struct {
	addBefore, addAfter []time.Time
	readStart, readEnd  []time.Time
	samples             [][]int64
	stats               []map[string]int64
}

type c19Case struct {
	Part    string      `json:"part"`
	History *c19History `json:"history,omitempty"`
	Detail  string      `json:"detail,omitempty"`
	Backend string      `json:"backend,omitempty"`
	MsgHex  string      `json:"msg_hex,omitempty"`
	Msg     string      `json:"msg,omitempty"`
	Cache   bool        `json:"cache,omitempty"`
	Burst   int         `json:"burst,omitempty"` // busy-window part: number of samples added within one window
}

// c19Burst: one small sample followed by n larger ones, all within one window
// length; every one of them is still live, so the exported minimum is the
// first sample, the count is n+1 and the average is exact.
func c19Burst(n int, viaStats bool) (key, msg string) {
	life := 120 * time.Second
	var sum int64 = 1
	val := func(i int) int64 { return 100 + int64(i%7) }
	t0 := time.Now()
	if viaStats {
		st := metrics.NewStats()
		if err := st.VerifRegisterWindow("busy", life); err != nil {
			return "", ""
		}
		st.AddSample("busy", 1)
		for i := 0; i < n; i++ {
			st.AddSample("busy", val(i))
			sum += val(i)
		}
		got := st.Get()
		if time.Since(t0) > life-10*time.Second {
			return "", "" // too slow to say anything
		}
		if got["busy.min"] != 1 || got["busy.max"] != 106 || got["busy.avg"] != sum/int64(n+1) {
			return "busy-window-forgot-samples", fmt.Sprintf("1 and then %d samples 100..106 added within %v (window %v): exported min/max/avg = %d/%d/%d, want 1/106/%d", n, time.Since(t0), life, got["busy.min"], got["busy.max"], got["busy.avg"], sum/int64(n+1))
		}
		return "", ""
	}
	w, err := metrics.NewWindowForVerif(life)
	if err != nil {
		return "", ""
	}
	defer w.Stop()
	w.Add(1)
	for i := 0; i < n; i++ {
		w.Add(val(i))
	}
	got := w.Samples()
	if time.Since(t0) > life-10*time.Second {
		return "", ""
	}
	has1 := false
	for _, v := range got {
		if v == 1 {
			has1 = true
		}
	}
	if len(got) != n+1 || !has1 {
		return "busy-window-forgot-samples", fmt.Sprintf("1 and then %d samples added within %v (window %v): the window reports %d samples, the first one present: %v", n, time.Since(t0), life, len(got), has1)
	}
	return "", ""
}

// slack granted to the cleaner: its 1 s tick plus scheduling delay
const c19CleanerSlack = 2500 * time.Millisecond

// c19ExtraSlack is added to the cleaner slack: three times the worst timer
// lateness observed in this process while the batch ran (a loaded machine wakes
// timers late; that must never look like a late cleaner).
var c19ExtraSlack time.Duration

func genC19History(t *rapid.T) c19History {
	h := c19History{LifetimeMs: rapid.SampledFrom([]int{300, 500, 900, 1000, 1100, 1700, 2500, 3000}).Draw(t, "lifetime"), ViaStats: rapid.Bool().Draw(t, "viastats")}
	n := rapid.IntRange(1, 8).Draw(t, "nadds")
	if rapid.IntRange(0, 2).Draw(t, "dense") == 0 {
		// a steady stream: one early sample followed by many that stay live after it expired
		n = rapid.IntRange(10, 24).Draw(t, "ndense")
	}
	for i := 0; i < n; i++ {
		h.Adds = append(h.Adds, c19Add{AtMs: rapid.IntRange(0, 7000).Draw(t, "at")})
	}
	sort.Slice(h.Adds, func(i, j int) bool { return h.Adds[i].AtMs < h.Adds[j].AtMs })
	// distinct values (they identify the samples) in no particular order with
	// respect to time; some histories are negative throughout or mixed
	idx := make([]int, n)
	for i := range idx {
		idx[i] = i
	}
	order := rapid.Permutation(idx).Draw(t, "value-order")
	signs := rapid.SampledFrom([]string{"pos", "pos", "pos", "neg", "mixed"}).Draw(t, "signs")
	for i := range h.Adds {
		v := int64(1000*(order[i]+1) + rapid.IntRange(1, 999).Draw(t, "v"))
		if signs == "neg" || (signs == "mixed" && rapid.Bool().Draw(t, "negative")) {
			v = -v
		}
		h.Adds[i].Value = v
	}
	m := rapid.IntRange(2, 8).Draw(t, "nreads")
	for i := 0; i < m; i++ {
		h.ReadsMs = append(h.ReadsMs, rapid.IntRange(0, 12000).Draw(t, "read"))
	}
	// one read in the region where everything must be gone
	h.ReadsMs = append(h.ReadsMs, 7000+h.LifetimeMs+int(c19CleanerSlack/time.Millisecond)+300)
	sort.Ints(h.ReadsMs)
	return h
}

func c19RunHistory(h c19History) (c19Obs, error) {
	var o c19Obs
	var add func(int64)
	var read func() ([]int64, map[string]int64)
	life := time.Duration(h.LifetimeMs) * time.Millisecond
	if h.ViaStats {
		st := metrics.NewStats()
		if err := st.VerifRegisterWindow("w", life); err != nil {
			return o, err
		}
		add = func(v int64) { st.AddSample("w", v) }
		read = func() ([]int64, map[string]int64) { return nil, st.Get() }
	} else {
		w, err := metrics.NewWindowForVerif(life)
		if err != nil {
			return o, err
		}
		defer w.Stop()
		add = w.Add
		read = func() ([]int64, map[string]int64) { return w.Samples(), nil }
	}
	start := time.Now()
	ai, ri := 0, 0
	for ai < len(h.Adds) || ri < len(h.ReadsMs) {
		doAdd := ri >= len(h.ReadsMs) || (ai < len(h.Adds) && h.Adds[ai].AtMs <= h.ReadsMs[ri])
		var at int
		if doAdd {
			at = h.Adds[ai].AtMs
		} else {
			at = h.ReadsMs[ri]
		}
		if d := time.Until(start.Add(time.Duration(at) * time.Millisecond)); d > 0 {
			time.Sleep(d)
		}
		if doAdd {
			o.addBefore = append(o.addBefore, time.Now())
			add(h.Adds[ai].Value)
			o.addAfter = append(o.addAfter, time.Now())
			ai++
		} else {
			o.readStart = append(o.readStart, time.Now())
			s, m := read()
			o.readEnd = append(o.readEnd, time.Now())
			o.samples = append(o.samples, s)
			o.stats = append(o.stats, m)
			ri++
		}
	}
	return o, nil
}

// c19CheckHistory applies the one-sided timing oracle.
func c19CheckHistory(h c19History, o c19Obs) (key, msg string, nontrivial bool) {
	life := time.Duration(h.LifetimeMs) * time.Millisecond
	for r := range o.readStart {
		must := map[int64]bool{}
		may := map[int64]bool{}
		for a := range o.addBefore {
			if !o.addAfter[a].Before(o.readStart[r]) && !o.addBefore[a].Before(o.readStart[r]) {
				continue // added after the read began
			}
			v := h.Adds[a].Value
			addedBeforeRead := o.addAfter[a].Before(o.readStart[r])
			if addedBeforeRead && o.addBefore[a].Add(life).After(o.readEnd[r]) {
				must[v] = true
			}
			if !o.addAfter[a].Add(life).Before(o.readStart[r].Add(-c19CleanerSlack - c19ExtraSlack)) {
				may[v] = true
			}
		}
		if len(must) > 0 && len(may) > len(must) {
			nontrivial = true
		}
		if !h.ViaStats {
			got := map[int64]int{}
			for _, v := range o.samples[r] {
				got[v]++
				if !may[v] {
					k := "expired-sample-reported"
					known := false
					for _, a := range h.Adds {
						if a.Value == v {
							known = true
						}
					}
					if !known {
						k = "value-never-added"
					}
					return k, fmt.Sprintf("read %d (at %v) reports %d; must-present %v, may-present %v, got %v", r, o.readStart[r].Sub(o.addBefore[0]), v, keysI(must), keysI(may), o.samples[r]), nontrivial
				}
				if got[v] > 1 {
					return "sample-duplicated", fmt.Sprintf("read %d reports %d twice: %v", r, v, o.samples[r]), nontrivial
				}
			}
			for v := range must {
				if got[v] == 0 {
					return "live-sample-missing", fmt.Sprintf("read %d (at %v) lacks live sample %d (lifetime %v); got %v", r, o.readStart[r].Sub(o.addBefore[0]), v, life, o.samples[r]), nontrivial
				}
			}
			continue
		}
		// via Stats.Get(): min / max / avg of a multiset between must and may
		m := o.stats[r]
		mn, mx, avg := m["w.min"], m["w.max"], m["w.avg"]
		if len(may) == 0 {
			if mn != 0 || mx != 0 || avg != 0 {
				return "stats-from-expired-samples", fmt.Sprintf("read %d: min/max/avg %d/%d/%d although every sample has expired", r, mn, mx, avg), nontrivial
			}
			continue
		}
		if mn == 0 && mx == 0 && avg == 0 && len(must) == 0 {
			continue // nothing live any more
		}
		if !may[mn] || !may[mx] {
			return "stats-value-never-live", fmt.Sprintf("read %d: min %d / max %d are not among the possibly live samples %v (must %v)", r, mn, mx, keysI(may), keysI(must)), nontrivial
		}
		for v := range must {
			if v < mn || v > mx {
				return "stats-ignore-live-sample", fmt.Sprintf("read %d: live sample %d outside min/max %d/%d", r, v, mn, mx), nontrivial
			}
		}
		if avg < mn || avg > mx {
			return "stats-avg-out-of-range", fmt.Sprintf("read %d: avg %d outside [%d,%d]", r, avg, mn, mx), nontrivial
		}
	}
	return "", "", nontrivial
}

func keysI(m map[int64]bool) []int64 {
	var out []int64
	for k := range m {
		out = append(out, k)
	}
	sort.Slice(out, func(i, j int) bool { return out[i] < out[j] })
	return out
}

// ---- (b) handler counters and logger ------------------------------------------

type c19Logger struct {
	mu     sync.Mutex
	logged []*dns.Msg
	failed int
}

func (l *c19Logger) Log(state request.Request, r *dns.Msg, ecs *dns.EDNS0_SUBNET) {
	l.mu.Lock()
	l.logged = append(l.logged, r.Copy())
	l.mu.Unlock()
}

func (l *c19Logger) LogFailed(state request.Request, r *dns.Msg, ecs *dns.EDNS0_SUBNET) {
	l.mu.Lock()
	l.failed++
	l.mu.Unlock()
}

type c19Handler struct {
	name   string
	h      *dnsserver.FBDNSDB
	st     *kit.SchedStats
	lg     *c19Logger
	cache  bool
	broken bool
}

var (
	c19Once     sync.Once
	c19Handlers []*c19Handler
	c19Err      error
)

func c19Setup() {
	dir := kit.Scratch("c19")
	for _, b := range kit.AllBackends {
		p, err := kit.Compile([]byte(c13Normal), 1, dir, b, kit.DefaultCompile)
		if err != nil {
			c19Err = err
			return
		}
		for _, cache := range []bool{false, true} {
			st, lg := kit.NewSchedStats(nil), &c19Logger{}
			ho := kit.HandlerOpts{Stats: st, Logger: lg}
			if cache {
				ho.Cache = dnsserver.CacheConfig{Enabled: true, LRUSize: 16, WRSTimeout: 1}
			}
			h, err := kit.OpenHandler(p, b, ho)
			if err != nil {
				c19Err = err
				return
			}
			c19Handlers = append(c19Handlers, &c19Handler{name: fmt.Sprintf("%s/cache=%v", b, cache), h: h, st: st, lg: lg, cache: cache})
		}
	}
	// failure path: a file that is not a database
	junk := make([]byte, 5000)
	for i := range junk {
		junk[i] = byte(i*37 + 11)
	}
	jp := filepath.Join(dir, "junk.cdb")
	if err := os.WriteFile(jp, junk, 0o644); err != nil {
		c19Err = err
		return
	}
	st, lg := kit.NewSchedStats(nil), &c19Logger{}
	if h, err := kit.OpenHandler(jp, kit.CDB, kit.HandlerOpts{Stats: st, Logger: lg}); err == nil {
		c19Handlers = append(c19Handlers, &c19Handler{name: "broken-cdb", h: h, st: st, lg: lg, broken: true})
	}
}

var c19LocationKeys = []string{"DNS_location.ecs", "DNS_location.empty", "DNS_location.default", "DNS_location.fallback_default", "DNS_location.resolver"}
var c19OutcomeKeys = []string{"DNS_queries_nxdomain", "DNS_queries_refused", "DNS_queries_badvers", "DNS_queries_nodata", "DNS_queries_notauthoritative"}
var c19ResponseKeys = []string{"DNS_response.refused", "DNS_response.not_authoritative", "DNS_response.authoritative"}

func delta(before, after map[string]int64) map[string]int64 {
	d := map[string]int64{}
	for k, v := range after {
		if v != before[k] {
			d[k] = v - before[k]
		}
	}
	return d
}

func sumKeys(d map[string]int64, keys []string) (int64, []string) {
	var s int64
	var which []string
	for _, k := range keys {
		if d[k] != 0 {
			s += d[k]
			which = append(which, fmt.Sprintf("%s=%d", k, d[k]))
		}
	}
	return s, which
}

func c19CheckQuery(t kit.Fataler, hd *c19Handler, wire []byte, remote string, record bool) {
	req := new(dns.Msg)
	if err := req.Unpack(wire); err != nil {
		return
	}
	cs := c19Case{Part: "counters", Backend: hd.name, MsgHex: fmt.Sprintf("%x", wire), Msg: strings.ReplaceAll(req.String(), "\n", " | "), Cache: hd.cache}
	fail := func(key, format string, a ...interface{}) {
		kit.Fail(t, "C19", key, cs, "%s: "+format+"\nquery: %s", append([]interface{}{hd.name}, append(a, cs.Msg)...)...)
	}
	before := hd.st.Snapshot()
	hd.lg.mu.Lock()
	hd.lg.logged, hd.lg.failed = nil, 0
	hd.lg.mu.Unlock()
	w, _, _, pan := c13Serve(hd.h, req.Copy(), remote, true)
	if pan != nil {
		fail("panic", "handler panicked: %v", pan)
	}
	d := delta(before, hd.st.Snapshot())
	if d["DNS_queries"] != 1 {
		fail("query-counter", "DNS_queries changed by %d", d["DNS_queries"])
	}
	qt := req.Question[0].Qtype
	typeKey := "DNS_query.TYPE" + fmt.Sprint(qt)
	if s, ok := dns.TypeToString[qt]; ok {
		typeKey = "DNS_query." + s
	}
	var typeSum int64
	for k, v := range d {
		if strings.HasPrefix(k, "DNS_query.") {
			typeSum += v
		}
	}
	if d[typeKey] != 1 || typeSum != 1 {
		fail("type-counter", "type counters changed by %v, want exactly %s+1", d, typeKey)
	}
	opt := req.IsEdns0()
	badvers := opt != nil && opt.Version() != 0
	logged, failed := hd.lg.logged, hd.lg.failed
	if len(w.Msgs) == 0 {
		// failure path: nothing composed, nothing logged as a response
		if len(logged) != 0 {
			fail("log-without-write", "logger got %d responses but nothing was written", len(logged))
		}
		if !hd.broken {
			fail("no-response", "nothing written on a healthy database")
		}
		if failed != 1 {
			fail("logfailed-count", "LogFailed called %d times on the failure path", failed)
		}
		if s, which := sumKeys(d, c19OutcomeKeys); s != 0 {
			fail("outcome-without-response", "outcome counters changed without a response: %v", which)
		}
		if record {
			kit.Class("counters:failure-path")
			kit.NonTrivial("failure|" + hd.name + "|" + fmt.Sprint(qt))
		}
		return
	}
	out := w.Msgs[0]
	if len(logged) != 1 {
		fail("log-count", "the written response was logged %d times", len(logged))
	}
	if failed != 0 {
		fail("logfailed-on-success", "LogFailed called although a response was written")
	}
	if a, b := out.String(), logged[0].String(); a != b {
		fail("log-differs-from-sent", "logged message differs from the one sent:\nsent:   %s\nlogged: %s", strings.ReplaceAll(a, "\n", " | "), strings.ReplaceAll(b, "\n", " | "))
	}
	// outcome counters as dictated by the message sent
	want := map[string]int64{}
	if !out.Authoritative {
		want["DNS_queries_notauthoritative"] = 1
	}
	switch {
	case out.Rcode == dns.RcodeNameError:
		want["DNS_queries_nxdomain"] = 1
	case out.Rcode == dns.RcodeRefused:
		want["DNS_queries_refused"] = 1
	case out.Rcode == dns.RcodeBadVers:
		want["DNS_queries_badvers"] = 1
	case out.Rcode == dns.RcodeSuccess && len(out.Answer) == 0:
		want["DNS_queries_nodata"] = 1
	}
	for _, k := range c19OutcomeKeys {
		if d[k] != want[k] {
			fail("outcome-counter/"+k, "%s changed by %d, the response sent (rcode %s, aa=%v, %d answers) dictates %d", k, d[k], dns.RcodeToString[out.Rcode], out.Authoritative, len(out.Answer), want[k])
		}
	}
	cls := dns.RcodeToString[out.Rcode]
	if badvers {
		if s, which := sumKeys(d, c19LocationKeys); s != 0 {
			fail("location-counter-on-badvers", "location counters on a BADVERS reply: %v", which)
		}
		cls = "BADVERS"
	} else {
		if s, which := sumKeys(d, c19LocationKeys); s != 1 {
			fail("location-counter", "location-class counters changed by %v, want exactly one", which)
		}
		hit := d["DNS_cache.hit"]
		miss := d["DNS_cache.missed"] + d["DNS_cache.expired"]
		if hd.cache {
			if hit+miss != 1 {
				fail("cache-counter", "cache counters: hit %d, missed/expired %d, want exactly one", hit, miss)
			}
		} else if hit+miss != 0 {
			fail("cache-counter", "cache counters changed with the cache disabled")
		}
		if hit == 0 {
			if s, which := sumKeys(d, c19ResponseKeys); s != 1 {
				fail("response-class-counter", "DNS_response.* changed by %v, want exactly one", which)
			}
			switch {
			case out.Rcode == dns.RcodeRefused && d["DNS_response.refused"] != 1,
				out.Rcode != dns.RcodeRefused && out.Authoritative && d["DNS_response.authoritative"] != 1,
				out.Rcode != dns.RcodeRefused && !out.Authoritative && d["DNS_response.not_authoritative"] != 1:
				fail("response-class-counter", "DNS_response.* = %v does not match the response (rcode %s aa=%v)", d, dns.RcodeToString[out.Rcode], out.Authoritative)
			}
		} else {
			cls += "+cachehit"
		}
		if out.Rcode == 0 && len(out.Answer) == 0 {
			cls += "/NODATA"
		}
		if !out.Authoritative && out.Rcode == 0 {
			cls += "/REFERRAL"
		}
	}
	if record {
		kit.Class("counters:" + cls)
		loc, _ := sumKeys(d, c19LocationKeys)
		kit.NonTrivial(fmt.Sprintf("%s|%s|%v|%d", hd.name, cls, d, loc))
	}
}

func TestC19(t *testing.T) {
	c19Once.Do(c19Setup)
	if c19Err != nil {
		t.Fatalf("setup: %v", c19Err)
	}
	if f := kit.ReplayFile(); f != "" {
		var c c19Case
		kit.LoadReplay(t, f, &c)
		switch c.Part {
		case "window":
			for i := 0; i < 3; i++ {
				o, err := c19RunHistory(*c.History)
				if err != nil {
					t.Fatal(err)
				}
				if key, msg, _ := c19CheckHistory(*c.History, o); key != "" {
					kit.Fail(t, "C19", key, c, "%s", msg)
				}
			}
		case "busy-window":
			for _, via := range []bool{false, true} {
				if key, msg := c19Burst(c.Burst, via); key != "" {
					kit.Fail(t, "C19", key, c, "%s", msg)
				}
			}
		case "counters":
			var wire []byte
			fmt.Sscanf(c.MsgHex, "%x", &wire)
			for _, hd := range c19Handlers {
				if hd.name == c.Backend {
					c19CheckQuery(t, hd, wire, "10.1.2.3", false)
				}
			}
		}
		kit.Eval()
		return
	}
	// (a) timed sliding-window histories, a batch running concurrently in real time
	kit.SetRapid(kit.N(16, 160))
	rapid.Check(t, kit.Prop("C19", func(t *rapid.T) {
		n := 150
		hs := make([]c19History, n)
		for i := range hs {
			hs[i] = genC19History(t)
		}
		obs := make([]c19Obs, n)
		errs := make([]error, n)
		// timer lateness monitor
		stopMon := make(chan struct{})
		var maxLate time.Duration
		monDone := make(chan struct{})
		go func() {
			defer close(monDone)
			for {
				t0 := time.Now()
				select {
				case <-stopMon:
					return
				case <-time.After(50 * time.Millisecond):
				}
				if late := time.Since(t0) - 50*time.Millisecond; late > maxLate {
					maxLate = late
				}
			}
		}()
		var wg sync.WaitGroup
		for i := range hs {
			wg.Add(1)
			go func(i int) {
				defer wg.Done()
				obs[i], errs[i] = c19RunHistory(hs[i])
			}(i)
		}
		wg.Wait()
		close(stopMon)
		<-monDone
		c19ExtraSlack = 3 * maxLate
		if maxLate > 200*time.Millisecond {
			kit.Note("timers woke up to %v late in this process; cleaner slack widened accordingly", maxLate)
		}
		for i := range hs {
			if errs[i] != nil {
				t.Fatalf("window: %v", errs[i])
			}
			key, msg, nt := c19CheckHistory(hs[i], obs[i])
			if key != "" {
				h := hs[i]
				kit.Fail(t, "C19", key, c19Case{Part: "window", History: &h}, "lifetime %d ms, adds %v, reads %v: %s", h.LifetimeMs, h.Adds, h.ReadsMs, msg)
			}
			if nt {
				kit.NonTrivial(fmt.Sprintf("window|%+v", hs[i]))
				kit.Class("window:live-and-expired-coexist")
			} else {
				kit.Class("window:other")
			}
		}
		kit.EvalN(int64(n - 1))
		kit.Sample(c19Case{Part: "window", History: &hs[0]})
	}))
	// (a') a busy window: far more samples than any bounded buffer would hold,
	// all of them live
	if kit.Shard() == 2%kit.NShards() || kit.Thorough() {
		kit.SetRapid(kit.Pick(3, 6))
		rapid.Check(t, kit.Prop("C19", func(t *rapid.T) {
			n := rapid.SampledFrom([]int{70000, 131073, 200000, 300000, 1100000}).Draw(t, "burst") + rapid.IntRange(0, 9).Draw(t, "burst-jitter")
			via := rapid.Bool().Draw(t, "burst-via-stats")
			c := c19Case{Part: "busy-window", Burst: n}
			kit.Case(c)
			if key, msg := c19Burst(n, via); key != "" {
				kit.Fail(t, "C19", key, c, "%s", msg)
			}
			kit.Class(fmt.Sprintf("busy-window:%dk", n/1000))
			kit.NonTrivial(fmt.Sprintf("busy-window|%d|%v", n, via))
			kit.Sample(c)
		}))
	}
	// (b) counters and logger over all response classes
	for _, s := range c13SeedMsgs() {
		if wire, err := s.Pack(); err == nil {
			for _, hd := range c19Handlers {
				c19CheckQuery(t, hd, wire, "10.1.2.3", true)
				kit.Eval()
			}
		}
	}
	// (b') a cached weighted answer (kept for WRSTimeout = 1 s) that has expired
	// is a miss: exactly one of hit / missed / expired, and not hit
	if kit.Shard() == 3%kit.NShards() || kit.Thorough() {
		q := new(dns.Msg)
		q.SetQuestion("www.example.com.", dns.TypeA)
		wire, _ := q.Pack()
		for _, hd := range c19Handlers {
			if hd.cache {
				c19CheckQuery(t, hd, wire, "10.1.2.3", true)
				c19CheckQuery(t, hd, wire, "10.1.2.3", true)
			}
		}
		time.Sleep(2200 * time.Millisecond)
		for _, hd := range c19Handlers {
			if !hd.cache {
				continue
			}
			before := hd.st.Snapshot()
			c19CheckQuery(t, hd, wire, "10.1.2.3", true)
			d := delta(before, hd.st.Snapshot())
			if d["DNS_cache.hit"] != 0 {
				kit.Fail(t, "C19", "expired-entry-counted-as-hit", c19Case{Part: "counters", Backend: hd.name, MsgHex: fmt.Sprintf("%x", wire), Cache: true, Detail: "third query, 2.2 s after the entry was cached with a lifetime of 1 s"},
					"%s: www.example.com A asked 2.2 s after its weighted answer was cached for 1 s: DNS_cache.hit +%d, expired +%d, missed +%d", hd.name, d["DNS_cache.hit"], d["DNS_cache.expired"], d["DNS_cache.missed"])
			}
			if d["DNS_cache.expired"] == 1 {
				kit.Class("counters:expired-cache-entry")
				kit.NonTrivial("expired-cache-entry|" + hd.name)
			}
			kit.EvalN(3)
		}
	}
	kit.SetRapid(kit.N(80000, 2000000))
	rapid.Check(t, kit.Prop("C19", func(t *rapid.T) {
		m := genC13Msg(t)
		if len(m.Question) == 0 {
			t.Skip("no question")
		}
		wire, err := m.Pack()
		if err != nil {
			t.Skip("does not pack")
		}
		hd := rapid.SampledFrom(c19Handlers).Draw(t, "handler")
		remote := rapid.SampledFrom([]string{"10.1.2.3", "192.0.2.200", "2001:db8::7"}).Draw(t, "remote")
		kit.Case(c19Case{Part: "counters", Backend: hd.name, MsgHex: fmt.Sprintf("%x", wire)})
		c19CheckQuery(t, hd, wire, remote, true)
		if hd.cache {
			// the same query again: now (mostly) served from the cache
			c19CheckQuery(t, hd, wire, remote, true)
		}
	}))
	// (c') samples added concurrently to a fresh key are all exported
	if kit.Shard() == 1%kit.NShards() {
		st := metrics.NewStats()
		rounds := kit.Pick(4000, 40000)
		for r := 0; r < rounds; r++ {
			key := fmt.Sprintf("fresh%d", r)
			start := make(chan struct{})
			var wg sync.WaitGroup
			for g := 1; g <= 4; g++ {
				wg.Add(1)
				go func(v int64) {
					defer wg.Done()
					<-start
					st.AddSample(key, v)
				}(int64(g * 10))
			}
			close(start)
			wg.Wait()
		}
		got := st.Get()
		for r := 0; r < rounds; r++ {
			key := fmt.Sprintf("fresh%d", r)
			if got[key+".min"] != 10 || got[key+".max"] != 40 || got[key+".avg"] != 25 {
				kit.Fail(t, "C19", "concurrent-first-samples-lost", c19Case{Part: "concurrent-first-samples", Detail: fmt.Sprintf("round %d of %d", r, rounds)},
					"four goroutines added 10, 20, 30, 40 to a fresh key at the same time; exported min/max/avg = %d/%d/%d, want 10/40/25", got[key+".min"], got[key+".max"], got[key+".avg"])
			}
		}
		kit.EvalN(int64(rounds))
		kit.Class("concurrent-first-samples")
		kit.NonTrivial("concurrent-first-samples")
	}
	// (c) counters equal the sum of their increments under concurrency
	if kit.Shard() == 0 {
		st := metrics.NewStats()
		var wg sync.WaitGroup
		stop := make(chan struct{})
		go func() {
			for {
				select {
				case <-stop:
					return
				default:
					_ = st.Get()
				}
			}
		}()
		for g := 0; g < 16; g++ {
			wg.Add(1)
			go func(g int) {
				defer wg.Done()
				for i := 0; i < 10000; i++ {
					st.IncrementCounter("a")
					st.IncrementCounterBy("b", 3)
					st.IncrementCounter(fmt.Sprintf("k%d", g%4))
				}
			}(g)
		}
		wg.Wait()
		close(stop)
		got := st.Get()
		if got["a"] != 160000 || got["b"] != 480000 || got["k0"] != 40000 || got["k3"] != 40000 {
			kit.Fail(t, "C19", "lost-increment", c19Case{Part: "concurrent-counters"}, "after 16x10000 concurrent increments: a=%d (want 160000) b=%d (want 480000) k0=%d k3=%d (want 40000)", got["a"], got["b"], got["k0"], got["k3"])
		}
		kit.Eval()
		kit.Class("concurrent-counters")
	}
}
