package props

import (
	"fmt"
	"runtime"
	"sync"
	"sync/atomic"
	"time"

	"github.com/facebookincubator/dns/dnsrocks/db"
	"github.com/facebookincubator/dns/dnsrocks/dnsserver"
	"github.com/facebookincubator/dns/dnsrocks/metrics"
	"github.com/miekg/dns"

	"verif/kit"
)

// Free-running stress: N query workers, a reloader, a statistics reporter and
// a final shutdown with queries in flight.  Used by C14 (race build: data
// races, crashes, deadlocks) and by C05 part (ii) (generation invariants under
// real concurrency).

type stressCfg struct {
	Backend  string   `json:"backend"`
	Workers  int      `json:"workers"`
	Millis   int      `json:"millis"`
	Cache    bool     `json:"cache"`
	Reloads  []string `json:"reloads"`  // kinds cycled by the reloader
	Queries  [][]int  `json:"queries"`  // per worker: indices into kit.StampQueries, cycled
	ECS      []bool   `json:"ecs"`      // per worker: attach a client-subnet option
	Semantic bool     `json:"semantic"` // check generation invariants (C05) in addition to crashes
}

type stressResult struct {
	Queries, Reloads, Overlapped int64
}

var stressAcquired int64

func stressInstallHook() { installYieldHook() }

func stressRun(t kit.Fataler, prop string, cfg stressCfg) stressResult {
	stressInstallHook()
	var b kit.Backend
	for _, x := range kit.AllBackends {
		if x.String() == cfg.Backend {
			b = x
		}
	}
	fail := func(key, format string, a ...interface{}) {
		kit.Fail(t, prop, key+"/"+cfg.Backend, cfg, format, a...)
	}
	st := metrics.NewStats()
	cache := dnsserver.CacheConfig{}
	if cfg.Cache {
		cache = dnsserver.CacheConfig{Enabled: true, LRUSize: 32}
	}
	w := &c05World{backend: b, dir: kit.Scratch("stress"), pathGen: map[string]int{}, nextGen: c05FirstGen}
	defer func() { w.h = nil; w.close() }()
	p0 := w.dir + "/A"
	if err := w.makeDB(p0, c05FirstGen, true); err != nil {
		fail("setup-error", "%v", err)
	}
	w.pathGen[p0], w.served, w.committed = c05FirstGen, p0, c05FirstGen
	h, err := kit.OpenHandler(p0, b, kit.HandlerOpts{ValidationKey: kit.ValidationKey(b), Cache: cache, Stats: st})
	if err != nil {
		fail("setup-error", "%v", err)
	}
	var committed, attempted int64 = c05FirstGen, c05FirstGen
	var stopping int32
	var started, aborted int64
	acquiredBase := atomic.LoadInt64(&stressAcquired)
	progress := make([]int64, cfg.Workers+2)
	var overlapped, nreloads int64
	var reloadActive int32
	var firstErr atomic.Value
	report := func(key, msg string) {
		firstErr.CompareAndSwap(nil, [2]string{key, msg})
	}
	hasPartialRDB := false
	for _, k := range cfg.Reloads {
		if (k == "partial" || k == "partial-timeout") && b != kit.CDB {
			hasPartialRDB = true
		}
	}
	var wg sync.WaitGroup
	for i := 0; i < cfg.Workers; i++ {
		wg.Add(1)
		go func(i int) {
			defer wg.Done()
			last := 0
			qs := cfg.Queries[i%len(cfg.Queries)]
			for n := 0; ; n++ {
				if atomic.LoadInt32(&stopping) != 0 {
					return
				}
				atomic.AddInt64(&started, 1)
				if atomic.LoadInt32(&stopping) != 0 {
					atomic.AddInt64(&aborted, 1)
					return
				}
				q := kit.StampQueries[qs[n%len(qs)]]
				if n%5 == 4 {
					// a query type without mnemonic, a different one each time (per-type
					// bookkeeping along the serve path is exercised with ever new types)
					q = kit.Query{Name: "www.example.com.", Type: uint16(65280 + (i*37+n/5)%250), Class: 1}
				}
				c := kit.Client{Resolver: []string{"10.9.9.9", "192.0.2.9", "2001:db8::9"}[(i+n)%3]}
				if cfg.ECS[i%len(cfg.ECS)] {
					c.ECS = &kit.ECS{Family: 1, Source: 16, Addr: "10.1.0.0"}
				}
				floor := int(atomic.LoadInt64(&committed))
				active := atomic.LoadInt32(&reloadActive) != 0
				resp, _, err := kit.AskMsg(h, kit.BuildMsg(q, c, uint16(n)), c.Resolver, 8, true)
				ceil := int(atomic.LoadInt64(&attempted))
				if active || atomic.LoadInt32(&reloadActive) != 0 {
					atomic.AddInt64(&overlapped, 1)
				}
				atomic.AddInt64(&progress[i], 1)
				if err != nil {
					report("handler-error", fmt.Sprintf("worker %d: %v", i, err))
					return
				}
				if resp == nil {
					report("no-response", fmt.Sprintf("worker %d: nothing written for %s", i, q.Name))
					return
				}
				if cfg.Semantic {
					stamps := kit.Stamps(resp)
					if len(stamps) == 0 {
						report("unstamped-response", fmt.Sprintf("worker %d %s: %s", i, q.Name, kit.Brief(resp)))
						return
					}
					for _, x := range stamps {
						if x != stamps[0] && !hasPartialRDB {
							report("mixed-generations", fmt.Sprintf("worker %d %s: generations %v in one response", i, q.Name, stamps))
							return
						}
						if x < floor {
							report("stale-after-reload", fmt.Sprintf("worker %d %s: generation %d after reload to %d had returned", i, q.Name, x, floor))
							return
						}
						if x > ceil {
							report("future-generation", fmt.Sprintf("worker %d %s: generation %d > %d", i, q.Name, x, ceil))
							return
						}
					}
					if !hasPartialRDB && stamps[0] < last {
						report("generation-went-backwards", fmt.Sprintf("worker %d: %d after %d", i, stamps[0], last))
						return
					}
					last = stamps[0]
				}
			}
		}(i)
	}
	// reloader
	stopReload := make(chan struct{})
	var rwg sync.WaitGroup
	rwg.Add(1)
	go func() {
		defer rwg.Done()
		for n := 0; ; n++ {
			select {
			case <-stopReload:
				return
			default:
			}
			kind := cfg.Reloads[n%len(cfg.Reloads)]
			if kind == "partial-timeout" {
				// a burst of catch-ups that overrun their (1 ns) timeout, so that catch-ups
				// overlap; whatever they return is accepted - afterwards a normal partial
				// reload must still succeed
				h.VerifSetReloadTimeout(time.Nanosecond)
				for i := 0; i < 3; i++ {
					_ = h.Reload(*dnsserver.NewPartialReloadSignal())
				}
				h.VerifSetReloadTimeout(30 * time.Second)
				kind = "partial"
			}
			if kind == "partial" {
				atomic.StoreInt64(&attempted, int64(w.nextGen+1))
				if err := w.stage(); err != nil {
					report("setup-error", fmt.Sprintf("stage: %v", err))
					return
				}
			}
			if kind == "full-ok" {
				atomic.StoreInt64(&attempted, int64(w.nextGen+1))
			}
			sig, target, err := w.prepareReload(kind)
			if err != nil {
				report("setup-error", fmt.Sprintf("prepare %s: %v", kind, err))
				return
			}
			atomic.StoreInt32(&reloadActive, 1)
			rerr := h.Reload(sig)
			atomic.StoreInt32(&reloadActive, 0)
			atomic.AddInt64(&nreloads, 1)
			atomic.AddInt64(&progress[cfg.Workers], 1)
			good := kind == "partial" || kind == "full-ok"
			if good && rerr != nil {
				report("good-reload-failed", fmt.Sprintf("reload %s: %v", kind, rerr))
				return
			}
			if !good && rerr == nil {
				report("bad-reload-accepted", fmt.Sprintf("reload %s returned nil", kind))
				return
			}
			if rerr == nil {
				if kind == "full-ok" {
					w.served = target
				}
				w.committed = w.pathGen[w.served]
				atomic.StoreInt64(&committed, int64(w.committed))
			}
		}
	}()
	// statistics reporter
	stopStats := make(chan struct{})
	rwg.Add(1)
	go func() {
		defer rwg.Done()
		for {
			select {
			case <-stopStats:
				return
			default:
			}
			h.ReportBackendStats()
			_ = st.Get()
			// the shared weighted-random source is used from here as well
			wr := db.Wrs{MaxAnswers: 1}
			_, _ = wr.ARecord("x.", dns.ClassINET)
			atomic.AddInt64(&progress[cfg.Workers+1], 1)
			time.Sleep(time.Millisecond)
		}
	}()
	// run, watching for lack of progress
	deadline := time.Now().Add(time.Duration(cfg.Millis) * time.Millisecond)
	lastSum, lastChange := int64(-1), time.Now()
	for time.Now().Before(deadline) && firstErr.Load() == nil {
		time.Sleep(50 * time.Millisecond)
		var sum int64
		for i := range progress {
			sum += atomic.LoadInt64(&progress[i])
		}
		if sum != lastSum {
			lastSum, lastChange = sum, time.Now()
		} else if time.Since(lastChange) > 60*time.Second {
			buf := make([]byte, 1<<20)
			buf = buf[:runtime.Stack(buf, true)]
			fail("deadlock", "no worker, reload or stats call completed for 60 s; goroutines:\n%s", buf)
		}
	}
	close(stopReload)
	// shutdown with queries in flight: stop new queries, wait until every
	// started query holds its reader, then close while they finish
	atomic.StoreInt32(&stopping, 1)
	kit.WaitFor(60*time.Second, func() bool {
		return atomic.LoadInt64(&started)-atomic.LoadInt64(&aborted) <= atomic.LoadInt64(&stressAcquired)-acquiredBase
	})
	rwg.Add(0)
	doneReload := make(chan struct{})
	go func() { close(stopStats); rwg.Wait(); close(doneReload) }()
	select {
	case <-doneReload:
	case <-time.After(120 * time.Second):
		buf := make([]byte, 1<<20)
		buf = buf[:runtime.Stack(buf, true)]
		fail("deadlock", "reloader / stats reporter did not stop; goroutines:\n%s", buf)
	}
	h.Close()
	done := make(chan struct{})
	go func() { wg.Wait(); close(done) }()
	select {
	case <-done:
	case <-time.After(120 * time.Second):
		buf := make([]byte, 1<<20)
		buf = buf[:runtime.Stack(buf, true)]
		fail("deadlock", "query workers did not drain after shutdown; goroutines:\n%s", buf)
	}
	if e := firstErr.Load(); e != nil {
		kv := e.([2]string)
		fail(kv[0], "%s", kv[1])
	}
	var nq int64
	for i := 0; i < cfg.Workers; i++ {
		nq += progress[i]
	}
	return stressResult{Queries: nq, Reloads: nreloads, Overlapped: overlapped}
}
