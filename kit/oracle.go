package kit

import (
	"bytes"
	"net"
	"sort"
	"strings"
)

// Reference semantics: longest-prefix match, name -> map, client -> location,
// and the answer a data file prescribes for a query (DESIGN.md appendix A.3).
// Nothing here shares code with /repo.

// containsPrefix reports whether subnet (ip/len) contains block (cip/clen);
// both in 128-bit form.
func containsPrefix(ip net.IP, length int, cip net.IP, clen int) bool {
	if length > clen {
		return false
	}
	for i := 0; i < length; i++ {
		if (ip[i/8]>>(7-uint(i%8)))&1 != (cip[i/8]>>(7-uint(i%8)))&1 {
			return false
		}
	}
	return true
}

// IsV4Block says whether a 128-bit client block belongs to the IPv4 family.
func IsV4Block(ip net.IP, length int) bool {
	return length >= 96 && bytes.Equal(ip[:12], []byte{0, 0, 0, 0, 0, 0, 0, 0, 0, 0, 0xff, 0xff})
}

// LPM is brute-force longest-prefix match among the subnets of one map, same
// address family, containing the client block and not longer than it.
// ok=false means no declared subnet matches.
func LPM(subnets []Subnet, m [2]byte, cip net.IP, clen int, cv4 bool) (loc [2]byte, matched int, ok bool) {
	best := -1
	for _, s := range subnets {
		if s.MapID != m || s.V4 != cv4 {
			continue
		}
		if !containsPrefix(s.IP, s.Len, cip, clen) {
			continue
		}
		if s.Len > best {
			best = s.Len
			loc = s.Loc
		}
	}
	if best < 0 {
		return [2]byte{}, 0, false
	}
	return loc, best, true
}

// MapFor picks the map of a name: exact entry first, else the nearest
// enclosing wildcard entry (at a strict ancestor, the root included).
func MapFor(maps []MapDecl, kind byte, name string) (id [2]byte, found bool) {
	name = CanonName(name)
	for _, m := range maps {
		if m.Kind == kind && !m.Wild && m.Name == name {
			return m.MapID, true
		}
	}
	n := name
	for n != "" {
		if i := strings.IndexByte(n, '.'); i >= 0 {
			n = n[i+1:]
		} else {
			n = ""
		}
		for _, m := range maps {
			if m.Kind == kind && m.Wild && m.Name == n {
				return m.MapID, true
			}
		}
	}
	return [2]byte{}, false
}

// Client describes who asks.
type Client struct {
	Resolver string `json:"resolver"` // textual IP of the resolver
	ECS      *ECS   `json:"ecs,omitempty"`
}

// ECS is a client-subnet option as sent.
type ECS struct {
	Family uint16 `json:"family"`
	Source uint8  `json:"source"`
	Addr   string `json:"addr"`
}

func to128(ipText string) (net.IP, bool) {
	ip := net.ParseIP(ipText)
	if ip == nil {
		return nil, false
	}
	return ip.To16(), ip.To4() != nil
}

// LocResult is what the location step should produce.
type LocResult struct {
	Loc        [2]byte
	ViaECS     bool  // location decided by the client subnet
	HasECSMap  bool  // the name has a client-subnet map
	ECSMatched int   // matched length (128-bit form) when ViaECS
	ExpScope   uint8 // scope the response should carry (when query had ECS)
}

// Locate computes the client's location for a query name.
func (w *World) Locate(qname string, c Client) LocResult {
	maps, nets := w.Maps(), w.Subnets()
	var r LocResult
	if c.ECS != nil {
		if id, ok := MapFor(maps, '8', qname); ok && id != [2]byte{} {
			r.HasECSMap = true
			ip := net.ParseIP(c.ECS.Addr)
			var ip16 net.IP
			clen := int(c.ECS.Source)
			fam1 := c.ECS.Family == 1
			if fam1 {
				ip16 = ip.To4().To16()
				clen += 96
			} else {
				ip16 = ip.To16()
			}
			// the address family of the client block decides which subnets can match; an
			// IPv4-mapped address sent as family 2 (full length) is an IPv4 client
			v4 := IsV4Block(ip16, clen)
			loc, ml, ok := LPM(nets, id, ip16, clen, v4)
			if ok && loc != [2]byte{} {
				r.Loc, r.ViaECS, r.ECSMatched = loc, true, ml
				if fam1 {
					r.ExpScope = uint8(ml - 96)
				} else {
					r.ExpScope = uint8(ml)
				}
				return r
			}
			if fam1 {
				r.ExpScope = 24
			} else {
				r.ExpScope = 48
			}
		}
	}
	id, _ := MapFor(maps, 'M', qname) // no map: the unnamed map \0\0
	ip16, v4 := to128(c.Resolver)
	if ip16 != nil {
		if loc, _, ok := LPM(nets, id, ip16, 128, v4); ok {
			r.Loc = loc
		}
	}
	return r
}

// ---------------------------------------------------------------------------

// Query is a question plus the knobs that influence the answer.
type Query struct {
	Name   string `json:"name"` // presentation form with trailing dot, as asked
	Type   uint16 `json:"type"`
	Class  uint16 `json:"class"`
	MaxAns int    `json:"max"`
}

// Expect is the reference outcome.
type Expect struct {
	Rcode   int
	AA      bool
	Refused bool
	Class   string // outcome class for the histogram
	Zone    string // zone cut
	// exact record sets (non-address types)
	Answer []RR
	// address answers: candidates per family and how many must be served
	AddrCand map[uint16][]RR
	AddrN    map[uint16]int
	Ns       []RR // authority section (owner = zone)
	// glue expectation: target -> family -> candidates (exactly one must be present if any positive weight)
	Glue        map[string]map[uint16][]RR
	GlueLenient map[string]bool // targets for which extra records are optional
	// GlueLenientFam: per target and family, set when the answer itself already
	// holds addresses of that name and family (then repeating them as glue
	// depends on how the name was spelled)
	GlueLenientFam map[string]map[uint16]bool
	Wildcard       bool
	Undefined      string // non-empty: the reference has no opinion (reason)
}

func wildSafe(label string) bool {
	for i := 0; i < len(label); i++ {
		c := label[i]
		if !(c >= 'a' && c <= 'z' || c >= '0' && c <= '9' || c == '-' || c == '_') {
			return false
		}
	}
	return true
}

func parent(name string) string {
	if i := strings.IndexByte(name, '.'); i >= 0 {
		return name[i+1:]
	}
	return ""
}

type index struct {
	by map[string][]RR // owner -> records
}

func newIndex(rrs []RR) *index {
	ix := &index{by: map[string][]RR{}}
	for _, r := range rrs {
		ix.by[r.Owner] = append(ix.by[r.Owner], r)
	}
	return ix
}

func (ix *index) vis(name string, wild bool, loc [2]byte) []RR {
	var tagged, plain []RR
	for _, r := range ix.by[name] {
		if r.Wild != wild {
			continue
		}
		if r.Loc == "" {
			plain = append(plain, r)
		} else if loc != [2]byte{} && r.Loc == string(loc[:]) {
			tagged = append(tagged, r)
		}
	}
	return append(tagged, plain...)
}

func hasType(rs []RR, t uint16) bool {
	for _, r := range rs {
		if r.Type == t {
			return true
		}
	}
	return false
}

func (ix *index) cut(name string, loc [2]byte) (zone string, ns, auth bool) {
	n := name
	for {
		v := ix.vis(n, false, loc)
		if hasType(v, 2) {
			return n, true, hasType(v, 6)
		}
		if n == "" {
			return "", false, false
		}
		n = parent(n)
	}
}

func positive(rs []RR, t uint16) []RR {
	var out []RR
	for _, r := range rs {
		if r.Type == t && r.Weight > 0 {
			out = append(out, r)
		}
	}
	return out
}

func (ix *index) glueFor(e *Expect, target string, loc [2]byte, lenient bool) {
	t := CanonName(target)
	if target != lowerASCII(target) && !lenient {
		// the data path looks names up by their stored bytes; rdata names in
		// upper case are outside the sound domain (S6) - no expectation.
		return
	}
	if e.Glue == nil {
		e.Glue = map[string]map[uint16][]RR{}
		e.GlueLenient = map[string]bool{}
	}
	if _, ok := e.Glue[t]; ok {
		return
	}
	v := ix.vis(t, false, loc)
	e.Glue[t] = map[uint16][]RR{1: positive(v, 1), 28: positive(v, 28)}
	if lenient {
		e.GlueLenient[t] = true
	}
}

// nameFromRData extracts the (only / last) domain name of NS, MX rdata.
func nameFromWire(b []byte) string {
	var labels []string
	for len(b) > 0 && b[0] != 0 {
		n := int(b[0])
		if 1+n > len(b) {
			break
		}
		labels = append(labels, string(b[1:1+n]))
		b = b[1+n:]
	}
	return strings.Join(labels, ".")
}

// Resolve computes the reference outcome of q for a client at location loc.
func (w *World) Resolve(q Query, loc [2]byte) *Expect {
	ix := newIndex(w.RRs())
	qn := CanonName(q.Name)
	e := &Expect{}
	zone, ns, auth := ix.cut(qn, loc)
	if !ns {
		e.Refused, e.Rcode, e.Class = true, 5, "refused"
		return e
	}
	if !auth && q.Type == 43 {
		if qn == "" {
			e.Undefined = "DS at the root"
			return e
		}
		z2, ns2, auth2 := ix.cut(parent(qn), loc)
		if !ns2 {
			e.Undefined = "DS below an orphan delegation"
			return e
		}
		zone, auth = z2, auth2
		if auth {
			e.Class = "ds-at-cut"
		}
	}
	e.Zone = zone
	if !auth {
		e.AA = false
		for _, r := range ix.vis(zone, false, loc) {
			if r.Type == 2 {
				e.Ns = append(e.Ns, r)
			}
		}
		hasGlue := false
		for _, r := range e.Ns {
			ix.glueFor(e, nameFromWire(r.RData), loc, false)
		}
		for _, fam := range e.Glue {
			if len(fam[1])+len(fam[28]) > 0 {
				hasGlue = true
			}
		}
		if e.Class == "" {
			if hasGlue {
				e.Class = "referral+glue"
			} else {
				e.Class = "referral-no-glue"
			}
		}
		return e
	}
	e.AA = true
	found := ix.vis(qn, false, loc)
	p := qn
	blocked := false
	for len(found) == 0 && p != zone && p != "" {
		lbl := p
		if i := strings.IndexByte(p, '.'); i >= 0 {
			lbl = p[:i]
		}
		if !wildSafe(lbl) {
			blocked = true
			break
		}
		p = parent(p)
		found = ix.vis(p, true, loc)
		if len(found) > 0 {
			e.Wildcard = true
		}
	}
	e.AddrCand = map[uint16][]RR{}
	e.AddrN = map[uint16]int{}
	for _, r := range found {
		if !(r.Type == q.Type || r.Type == 5 || q.Type == 255) {
			continue
		}
		if r.Type == 1 || r.Type == 28 {
			e.AddrCand[r.Type] = append(e.AddrCand[r.Type], r)
			continue
		}
		e.Answer = append(e.Answer, r)
	}
	nAddr := 0
	for t, c := range e.AddrCand {
		n := len(positive(c, t))
		if n > q.MaxAns {
			n = q.MaxAns
		}
		e.AddrN[t] = n
		nAddr += n
	}
	if len(e.Answer) == 0 && nAddr == 0 {
		if len(found) == 0 {
			e.Rcode = 3
			e.Class = "nxdomain"
			if blocked {
				e.Class = "nxdomain-wild-unsafe"
			}
		} else {
			e.Class = "nodata"
			if e.Wildcard {
				e.Class = "nodata-wildcard"
			}
		}
		for _, r := range ix.vis(zone, false, loc) {
			if r.Type == 6 {
				e.Ns = append(e.Ns, r)
				break
			}
		}
	} else if e.Class == "" {
		switch {
		case len(e.Answer) > 0 && e.Answer[0].Type == 5 && q.Type != 5 && q.Type != 255:
			e.Class = "cname"
		case e.Wildcard:
			e.Class = "wildcard-answer"
		default:
			e.Class = "answer"
		}
	}
	for _, r := range e.Answer {
		switch r.Type {
		case 2:
			ix.glueFor(e, nameFromWire(r.RData), loc, false)
		case 15:
			if len(r.RData) > 2 {
				ix.glueFor(e, nameFromWire(r.RData[2:]), loc, false)
			}
		case 65:
			ix.glueFor(e, lowerASCII(strings.TrimSuffix(q.Name, ".")), loc, false)
		}
	}
	// a target equal to the queried name: whether its addresses are repeated
	// in the additional section depends on whether the answer already holds
	// them (compared by spelling) - either is acceptable.
	if _, ok := e.Glue[qn]; ok {
		e.GlueLenientFam = map[string]map[uint16]bool{qn: {}}
		for fam, n := range e.AddrN {
			if n > 0 {
				e.GlueLenientFam[qn][fam] = true
			}
		}
	}
	if zone != qn && zone != "" && strings.HasSuffix(qn, "."+zone) {
		// nested-zone marker for the histogram: the zone apex is itself below another zone
		if z2, ns2, _ := ix.cut(parent(zone), loc); ns2 && z2 != zone {
			e.Class += "/nested"
		}
	}
	return e
}

// SortRR gives record lists a canonical order.
func SortRR(rs []RR) {
	sort.Slice(rs, func(i, j int) bool {
		a, b := rs[i], rs[j]
		if a.Type != b.Type {
			return a.Type < b.Type
		}
		if a.TTL != b.TTL {
			return a.TTL < b.TTL
		}
		if c := bytes.Compare(a.RData, b.RData); c != 0 {
			return c < 0
		}
		return bytes.Compare(a.Text, b.Text) < 0
	})
}
