package kit

import (
	"bytes"
	"context"
	"encoding/hex"
	"fmt"
	"net"
	"sort"
	"strings"

	"github.com/facebookincubator/dns/dnsrocks/dnsserver"
	"github.com/miekg/dns"
)

// Writer records what a handler writes.  TCP selects a TCP-style remote
// address (no 512-byte truncation), otherwise UDP.
type Writer struct {
	Remote string
	TCP    bool
	Msgs   []*dns.Msg
	Raw    [][]byte
	// OnWrite, if set, is called before recording (scheduler yield point).
	OnWrite func()
}

// LocalAddr implements dns.ResponseWriter.
func (w *Writer) LocalAddr() net.Addr {
	if w.TCP {
		return &net.TCPAddr{IP: net.ParseIP("127.0.0.1"), Port: 53}
	}
	return &net.UDPAddr{IP: net.ParseIP("127.0.0.1"), Port: 53}
}

// RemoteAddr implements dns.ResponseWriter.
func (w *Writer) RemoteAddr() net.Addr {
	ip := net.ParseIP(w.Remote)
	if w.TCP {
		return &net.TCPAddr{IP: ip, Port: 40212}
	}
	return &net.UDPAddr{IP: ip, Port: 40212}
}

// WriteMsg implements dns.ResponseWriter.
func (w *Writer) WriteMsg(m *dns.Msg) error {
	if w.OnWrite != nil {
		w.OnWrite()
	}
	w.Msgs = append(w.Msgs, m.Copy())
	return nil
}

// Write implements dns.ResponseWriter.
func (w *Writer) Write(b []byte) (int, error) {
	w.Raw = append(w.Raw, append([]byte(nil), b...))
	return len(b), nil
}

// Close etc. implement dns.ResponseWriter.
func (w *Writer) Close() error        { return nil }
func (w *Writer) TsigStatus() error   { return nil }
func (w *Writer) TsigTimersOnly(bool) {}
func (w *Writer) Hijack()             {}

// BuildMsg turns a Query and Client into a wire-level request.
func BuildMsg(q Query, c Client, id uint16) *dns.Msg {
	m := new(dns.Msg)
	m.Id = id
	m.RecursionDesired = false
	m.Question = []dns.Question{{Name: q.Name, Qtype: q.Type, Qclass: q.Class}}
	if c.ECS != nil {
		o := &dns.OPT{Hdr: dns.RR_Header{Name: ".", Rrtype: dns.TypeOPT}}
		o.SetUDPSize(4096)
		e := &dns.EDNS0_SUBNET{Code: dns.EDNS0SUBNET, Family: c.ECS.Family, SourceNetmask: c.ECS.Source}
		ip := net.ParseIP(c.ECS.Addr)
		if c.ECS.Family == 1 {
			e.Address = ip.To4()
		} else {
			e.Address = ip.To16()
		}
		o.Option = append(o.Option, e)
		m.Extra = append(m.Extra, o)
	}
	return m
}

// Ask runs one query in-process through the real handler with a TCP-style
// writer and returns the single response (nil if nothing was written).
func Ask(h *dnsserver.FBDNSDB, q Query, c Client) (*dns.Msg, int, error) {
	req := BuildMsg(q, c, 0x1234)
	return AskMsg(h, req, c.Resolver, q.MaxAns, true)
}

// AskMsg is Ask for a prepared message.
func AskMsg(h *dnsserver.FBDNSDB, req *dns.Msg, resolver string, maxAns int, tcp bool) (*dns.Msg, int, error) {
	w := &Writer{Remote: resolver, TCP: tcp}
	ctx := context.Background()
	if maxAns > 0 {
		ctx = dnsserver.WithMaxAnswer(ctx, maxAns)
	}
	rc, err := h.ServeDNSWithRCODE(ctx, w, req)
	if len(w.Msgs) > 1 {
		return w.Msgs[0], rc, fmt.Errorf("handler wrote %d messages", len(w.Msgs))
	}
	if len(w.Msgs) == 0 {
		return nil, rc, err
	}
	return w.Msgs[0], rc, err
}

// WireRR is a response record reduced to what is compared.
type WireRR struct {
	Owner string // as in the message
	Type  uint16
	Class uint16
	TTL   uint32
	RData []byte
}

// Flatten converts a dns.RR into WireRR (uncompressed rdata).
func Flatten(rr dns.RR) (WireRR, error) {
	buf := make([]byte, 70000)
	hdrName := rr.Header().Name
	off, err := dns.PackRR(rr, buf, 0, nil, false)
	if err != nil {
		return WireRR{}, err
	}
	// skip owner name
	i := 0
	for i < off && buf[i] != 0 {
		i += int(buf[i]) + 1
	}
	i++
	if i+10 > off {
		return WireRR{}, fmt.Errorf("short RR")
	}
	rd := append([]byte(nil), buf[i+10:off]...)
	h := rr.Header()
	return WireRR{Owner: hdrName, Type: h.Rrtype, Class: h.Class, TTL: h.Ttl, RData: rd}, nil
}

func txtConcat(rd []byte) ([]byte, bool) {
	var out []byte
	for len(rd) > 0 {
		n := int(rd[0])
		if 1+n > len(rd) {
			return nil, false
		}
		out = append(out, rd[1:1+n]...)
		rd = rd[1+n:]
	}
	return out, true
}

func rrKey(t uint16, ttl uint32, rd []byte, text []byte) string {
	if t == 16 {
		return fmt.Sprintf("%d/%d/T:%x", t, ttl, text)
	}
	return fmt.Sprintf("%d/%d/%x", t, ttl, rd)
}

func expKey(r RR) string { return rrKey(r.Type, r.TTL, r.RData, r.Text) }

func gotKey(r WireRR) string {
	if r.Type == 16 {
		t, ok := txtConcat(r.RData)
		if !ok {
			return fmt.Sprintf("%d/%d/BADTXT:%x", r.Type, r.TTL, r.RData)
		}
		return rrKey(r.Type, r.TTL, nil, t)
	}
	return rrKey(r.Type, r.TTL, r.RData, nil)
}

func multiset(keys []string) map[string]int {
	m := map[string]int{}
	for _, k := range keys {
		m[k]++
	}
	return m
}

func diffMultiset(want, got map[string]int) string {
	var parts []string
	for k, n := range want {
		if got[k] != n {
			parts = append(parts, fmt.Sprintf("want %dx %s got %d", n, k, got[k]))
		}
	}
	for k, n := range got {
		if _, ok := want[k]; !ok {
			parts = append(parts, fmt.Sprintf("unexpected %dx %s", n, k))
		}
	}
	sort.Strings(parts)
	return strings.Join(parts, "; ")
}

// CompareExpect checks a response against the reference outcome; it returns
// a failure shape key and message, or "".
func CompareExpect(resp *dns.Msg, q Query, e *Expect) (string, string) {
	if resp == nil {
		return "no-response", "handler wrote nothing"
	}
	if e.Refused {
		if resp.Rcode != dns.RcodeRefused {
			return "rcode", fmt.Sprintf("want REFUSED got %s", dns.RcodeToString[resp.Rcode])
		}
		if len(resp.Answer)+len(resp.Ns) > 0 {
			return "refused-with-records", "REFUSED response carries records"
		}
		return "", ""
	}
	if resp.Rcode != e.Rcode {
		return "rcode", fmt.Sprintf("want %s got %s", dns.RcodeToString[e.Rcode], dns.RcodeToString[resp.Rcode])
	}
	if resp.Authoritative != e.AA {
		return "aa", fmt.Sprintf("want AA=%v got %v", e.AA, resp.Authoritative)
	}
	// answer section
	var wantKeys, gotKeys []string
	for _, r := range e.Answer {
		wantKeys = append(wantKeys, expKey(r))
	}
	addrGot := map[uint16][]string{}
	for _, rr := range resp.Answer {
		f, err := Flatten(rr)
		if err != nil {
			return "unpackable-rr", err.Error()
		}
		if f.Owner != q.Name {
			return "answer-owner", fmt.Sprintf("answer owner %q, question %q", f.Owner, q.Name)
		}
		if f.Type == 1 || f.Type == 28 {
			addrGot[f.Type] = append(addrGot[f.Type], gotKey(f))
			continue
		}
		gotKeys = append(gotKeys, gotKey(f))
	}
	if d := diffMultiset(multiset(wantKeys), multiset(gotKeys)); d != "" {
		return "answer-set", "answer section: " + d
	}
	for _, t := range []uint16{1, 28} {
		got := addrGot[t]
		if len(got) != e.AddrN[t] {
			return "address-count", fmt.Sprintf("type %d: want %d address records got %d (%v)", t, e.AddrN[t], len(got), got)
		}
		cand := map[string]int{}
		for _, r := range e.AddrCand[t] {
			if r.Weight > 0 {
				cand[expKey(r)]++
			}
		}
		for _, k := range got {
			if cand[k] == 0 {
				return "address-not-candidate", fmt.Sprintf("type %d: served %s is not a (remaining) positive-weight candidate", t, k)
			}
			cand[k]--
		}
	}
	// authority
	wantKeys, gotKeys = nil, nil
	for _, r := range e.Ns {
		wantKeys = append(wantKeys, expKey(r))
	}
	for _, rr := range resp.Ns {
		f, err := Flatten(rr)
		if err != nil {
			return "unpackable-rr", err.Error()
		}
		if CanonName(f.Owner) != e.Zone {
			return "authority-owner", fmt.Sprintf("authority owner %q, zone %q", f.Owner, e.Zone)
		}
		gotKeys = append(gotKeys, gotKey(f))
	}
	if d := diffMultiset(multiset(wantKeys), multiset(gotKeys)); d != "" {
		return "authority-set", "authority section: " + d
	}
	// additional
	type famKey struct {
		t   string
		fam uint16
	}
	seen := map[famKey][]string{}
	for _, rr := range resp.Extra {
		if rr.Header().Rrtype == dns.TypeOPT {
			continue
		}
		f, err := Flatten(rr)
		if err != nil {
			return "unpackable-rr", err.Error()
		}
		t := CanonName(f.Owner)
		if _, ok := e.Glue[t]; !ok || (f.Type != 1 && f.Type != 28) {
			return "additional-unexpected", fmt.Sprintf("additional record %s type %d is not an address of a referenced target", f.Owner, f.Type)
		}
		seen[famKey{t, f.Type}] = append(seen[famKey{t, f.Type}], gotKey(f))
	}
	for t, fams := range e.Glue {
		for fam, cands := range fams {
			got := seen[famKey{t, fam}]
			if len(got) > 1 {
				return "additional-count", fmt.Sprintf("target %s family %d: %d records", t, fam, len(got))
			}
			if len(got) == 0 {
				if len(cands) > 0 && !e.GlueLenient[t] && !e.GlueLenientFam[t][fam] {
					return "additional-missing", fmt.Sprintf("target %s family %d: glue declared but absent", t, fam)
				}
				continue
			}
			ok := false
			for _, c := range cands {
				if expKey(c) == got[0] {
					ok = true
				}
			}
			if !ok {
				return "additional-not-candidate", fmt.Sprintf("target %s family %d: %s is not a declared visible address", t, fam, got[0])
			}
		}
	}
	return "", ""
}

// Normal is a canonical rendering of a response for differential
// comparison: ids, order, compression and owner-name case are dropped.
// weightedOwners lists (owner,type) whose record choice is random; for those
// only the count is kept.
func Normal(resp *dns.Msg, weighted func(section string, owner string, t uint16) bool) string {
	if resp == nil {
		return "<nothing written>"
	}
	var sb strings.Builder
	fmt.Fprintf(&sb, "rcode=%s aa=%v tc=%v\n", dns.RcodeToString[resp.Rcode], resp.Authoritative, resp.Truncated)
	sec := func(name string, rrs []dns.RR) {
		var lines []string
		counts := map[string]int{}
		for _, rr := range rrs {
			if rr.Header().Rrtype == dns.TypeOPT {
				continue
			}
			f, err := Flatten(rr)
			if err != nil {
				lines = append(lines, "unpackable:"+err.Error())
				continue
			}
			o := CanonName(f.Owner)
			if weighted != nil && weighted(name, o, f.Type) {
				counts[fmt.Sprintf("%s %d", o, f.Type)]++
				continue
			}
			lines = append(lines, fmt.Sprintf("%s %s", o, gotKey(f)))
		}
		for k, n := range counts {
			lines = append(lines, fmt.Sprintf("%s x%d (weighted)", k, n))
		}
		sort.Strings(lines)
		fmt.Fprintf(&sb, "%s:\n", name)
		for _, l := range lines {
			sb.WriteString("  " + l + "\n")
		}
	}
	sec("answer", resp.Answer)
	sec("authority", resp.Ns)
	sec("additional", resp.Extra)
	return sb.String()
}

// MsgHex packs a message for replay files.
func MsgHex(m *dns.Msg) string {
	b, err := m.Pack()
	if err != nil {
		return "pack error: " + err.Error()
	}
	return hex.EncodeToString(b)
}

// Brief renders a response compactly for failure messages.
func Brief(m *dns.Msg) string {
	if m == nil {
		return "<nothing written>"
	}
	return strings.ReplaceAll(Normal(m, nil), "\n", " | ")
}

var _ = bytes.Equal
