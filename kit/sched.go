package kit

import (
	"bytes"
	"fmt"
	"runtime"
	"strconv"
	"sync"
	"time"
)

// goID returns the id of the calling goroutine (parsed from the stack header;
// used only to tell scheduled threads from free-running goroutines).
func goID() int64 {
	var buf [64]byte
	n := runtime.Stack(buf[:], false)
	f := bytes.Fields(buf[:n])
	if len(f) < 2 {
		return -1
	}
	id, _ := strconv.ParseInt(string(f[1]), 10, 64)
	return id
}

// Cooperative scheduler: logical threads run one at a time; every other
// thread is parked inside a yield call (the verif yield hook of the handler,
// a recording Stats, or the response writer).  The harness - i.e. a rapid
// draw - decides which thread advances to its next yield point, so a schedule
// is a plain, shrinkable list of thread indices.

// Thread is one logical thread.
type Thread struct {
	Name    string
	fn      func()
	resume  chan struct{}
	parked  chan string
	Started bool
	Done    bool
	Point   string // where it is parked ("" before start / after end)
	Trace   []string
	gid     int64
}

// Sched owns the threads.
type Sched struct {
	mu      sync.Mutex
	cur     *Thread
	Threads []*Thread
	Log     []string
	// Filter, if set, decides whether a yield point parks (true) or is passed through.
	Filter func(point string) bool
}

// NewSched creates an empty scheduler.
func NewSched() *Sched { return &Sched{} }

// Spawn registers a thread; it starts running at its first Advance.
func (s *Sched) Spawn(name string, fn func()) *Thread {
	t := &Thread{Name: name, fn: fn, resume: make(chan struct{}), parked: make(chan string)}
	s.Threads = append(s.Threads, t)
	return t
}

// Yield is the hook called by the code under test.  Calls made while no
// scheduled thread is running (set-up, tear-down) return immediately.
func (s *Sched) Yield(point string) {
	s.mu.Lock()
	t := s.cur
	s.mu.Unlock()
	if t == nil {
		return
	}
	// goroutines that are not scheduled threads (free-running queries, helper
	// goroutines of the code under test) pass straight through
	if t.gid != goID() {
		return
	}
	if s.Filter != nil && !s.Filter(point) {
		return
	}
	t.parked <- point
	<-t.resume
}

// StepTimeout bounds one Advance; a thread that neither parks nor finishes
// within it is reported as stuck (a deadlock in the code under test or an
// enabledness rule of the harness that is wrong).
var StepTimeout = 60 * time.Second

// Advance lets t run to its next yield point or to completion and returns
// the point name ("" when finished).
func (s *Sched) Advance(t *Thread) (string, error) {
	if t.Done {
		return "", fmt.Errorf("thread %s already finished", t.Name)
	}
	s.mu.Lock()
	s.cur = t
	s.mu.Unlock()
	if !t.Started {
		t.Started = true
		ready := make(chan struct{})
		go func() {
			t.gid = goID()
			close(ready)
			<-t.resume
			t.fn()
			t.parked <- ""
		}()
		<-ready
	}
	t.resume <- struct{}{}
	var p string
	select {
	case p = <-t.parked:
	case <-time.After(StepTimeout):
		return "", fmt.Errorf("thread %s did not reach a yield point within %v after %q", t.Name, StepTimeout, t.Point)
	}
	s.mu.Lock()
	s.cur = nil
	s.mu.Unlock()
	t.Point = p
	if p == "" {
		t.Done = true
	}
	t.Trace = append(t.Trace, p)
	s.Log = append(s.Log, t.Name+":"+p)
	return p, nil
}

// Finish runs t to completion.
func (s *Sched) Finish(t *Thread) error {
	for !t.Done {
		if _, err := s.Advance(t); err != nil {
			return err
		}
	}
	return nil
}

// SchedStats is a stats.Stats whose counters are yield points and which also
// counts every increment (used by C19 as well).
type SchedStats struct {
	S      *Sched
	mu     sync.Mutex
	Counts map[string]int64
	Sample map[string][]int64
}

// NewSchedStats creates a recording Stats; s may be nil (no yields).
func NewSchedStats(s *Sched) *SchedStats {
	return &SchedStats{S: s, Counts: map[string]int64{}, Sample: map[string][]int64{}}
}

func (r *SchedStats) bump(key string, v int64, set bool) {
	r.mu.Lock()
	if set {
		r.Counts[key] = v
	} else {
		r.Counts[key] += v
	}
	r.mu.Unlock()
}

// ResetCounterTo implements stats.Stats.
func (r *SchedStats) ResetCounterTo(key string, value int64) { r.bump(key, value, true) }

// ResetCounter implements stats.Stats.
func (r *SchedStats) ResetCounter(key string) { r.bump(key, 0, true) }

// IncrementCounterBy implements stats.Stats.
func (r *SchedStats) IncrementCounterBy(key string, value int64) { r.bump(key, value, false) }

// IncrementCounter implements stats.Stats.
func (r *SchedStats) IncrementCounter(key string) {
	r.bump(key, 1, false)
	if r.S != nil {
		r.S.Yield("stats:" + key)
	}
}

// AddSample implements stats.Stats.
func (r *SchedStats) AddSample(key string, value int64) {
	r.mu.Lock()
	r.Sample[key] = append(r.Sample[key], value)
	r.mu.Unlock()
}

// Snapshot copies the counters.
func (r *SchedStats) Snapshot() map[string]int64 {
	r.mu.Lock()
	defer r.mu.Unlock()
	out := make(map[string]int64, len(r.Counts))
	for k, v := range r.Counts {
		out[k] = v
	}
	return out
}
