package props

import (
	"fmt"
	"os"
	"testing"

	"github.com/miekg/dns"
	"pgregory.net/rapid"

	"verif/kit"
)

// C02: storage backend and key layout never change an answer.

type c02Case struct {
	Text    string          `json:"text"`
	World   *kit.World      `json:"world"`
	Opts    kit.CompileOpts `json:"compile_opts"`
	Query   kit.Query       `json:"query"`
	Client  kit.Client      `json:"client"`
	Answers []string        `json:"answers,omitempty"`
}

func addrCounts(w *kit.World) map[string]int {
	m := map[string]int{}
	for _, r := range w.RRs() {
		if (r.Type == 1 || r.Type == 28) && !r.Wild {
			m[fmt.Sprintf("%s/%d", r.Owner, r.Type)]++
		}
	}
	return m
}

func c02Run(t kit.Fataler, w *kit.World, co kit.CompileOpts, qs []c01Q, record bool) {
	text := w.Text()
	served, cleanup, err := kit.ServeAll(text, w.Serial, kit.AllBackends, co, kit.HandlerOpts{})
	if err != nil {
		kit.Fail(t, "C02", "compile-error", c02Case{Text: string(text), World: w, Opts: co}, "compile/open failed: %v", err)
		return
	}
	defer cleanup()
	ac := addrCounts(w)
	weighted := func(section, owner string, typ uint16) bool {
		return section == "additional" && ac[fmt.Sprintf("%s/%d", owner, typ)] > 1
	}
	for _, x := range qs {
		x.q.MaxAns = 8
		var norms []string
		allRefused := true
		for _, s := range served {
			resp, _, err := kit.Ask(s.H, x.q, x.c)
			n := kit.Normal(resp, weighted)
			if err != nil {
				n += fmt.Sprintf("handler error: %v\n", err)
			}
			if resp == nil || resp.Rcode != dns.RcodeRefused {
				allRefused = false
			}
			norms = append(norms, n)
		}
		for i := 1; i < len(norms); i++ {
			if norms[i] != norms[0] {
				c := c02Case{Text: string(text), World: w, Opts: co, Query: x.q, Client: x.c}
				for j, s := range served {
					c.Answers = append(c.Answers, s.Backend.String()+": "+norms[j])
				}
				kit.Fail(t, "C02", fmt.Sprintf("differ/%s-vs-%s", served[0].Backend, served[i].Backend), c,
					"%s %d from %s (ecs %v): %s answers\n%s\nbut %s answers\n%s", x.q.Name, x.q.Type, x.c.Resolver, x.c.ECS, served[0].Backend, norms[0], served[i].Backend, norms[i])
			}
		}
		if record {
			if allRefused {
				kit.Class("all-refused")
			} else {
				kit.Class("answered")
				kit.NonTrivial(string(text) + "|" + x.q.Name + fmt.Sprint(x.q.Type, x.c) + norms[0])
			}
		}
	}
}

func genCompileOpts(t *rapid.T) kit.CompileOpts {
	co := kit.CompileOpts{
		Workers:       rapid.SampledFrom([]int{1, 1, 3, 0}).Draw(t, "workers"),
		BatchSize:     rapid.SampledFrom([]int{0, 1, 2, 7}).Draw(t, "batchsize"),
		BatchParallel: rapid.SampledFrom([]int{1, 4}).Draw(t, "batchpar"),
	}
	if kit.Thorough() && rapid.IntRange(0, 39).Draw(t, "builder") == 0 {
		co.Builder = true
		co.Hardlinks = rapid.Bool().Draw(t, "hardlinks")
	}
	return co
}

func TestC02(t *testing.T) {
	if f := kit.ReplayFile(); f != "" {
		var c c02Case
		kit.LoadReplay(t, f, &c)
		c02Run(t, c.World, c.Opts, []c01Q{{c.Query, c.Client}}, false)
		kit.Eval()
		return
	}
	if kit.Shard() == 0 {
		runRegressions(t, func(t kit.Fataler, w *kit.World, q kit.Query, c kit.Client) {
			c02Run(t, w, kit.DefaultCompile, []c01Q{{q, c}}, true)
		})
	}
	if os.Getenv("VERIF_ONLY_REGRESS") != "" {
		return
	}
	kit.SetRapid(kit.N(480, 8000))
	rapid.Check(t, kit.Prop("C02", func(t *rapid.T) {
		w := kit.GenWorld(t, kit.GenOpts{Wide: rapid.Bool().Draw(t, "wide")})
		co := genCompileOpts(t)
		names := kit.QueryNames(w)
		nq := rapid.IntRange(10, 40).Draw(t, "nq")
		qs := make([]c01Q, nq)
		for i := range qs {
			qs[i] = c01Q{kit.GenQuery(t, w, names), kit.GenClient(t)}
		}
		kit.Case(c02Case{Text: string(w.Text()), World: w, Opts: co})
		c02Run(t, w, co, qs, true)
		kit.ClassN("queries", int64(nq))
		kit.Class(fmt.Sprintf("opts:w%d-bs%d-bp%d-builder%v", co.Workers, co.BatchSize, co.BatchParallel, co.Builder))
		kit.Sample(map[string]interface{}{"data": string(w.Text()), "first_query": qs[0].q, "client": qs[0].c, "opts": co})
	}))
}
