package props

import (
	"context"
	"fmt"
	"net"
	"strings"
	"testing"

	"github.com/facebookincubator/dns/dnsrocks/dnsserver"
	"github.com/miekg/dns"
	"pgregory.net/rapid"

	"verif/kit"
)

// C12: the response cache is invisible.

type c12Op struct {
	Reload   string `json:"reload,omitempty"` // "", "full", "partial"
	Query    int    `json:"query"`
	Upper    bool   `json:"upper,omitempty"`
	Class    uint16 `json:"class"`
	Resolver string `json:"resolver"`
	Opt      int    `json:"opt"` // 0 none, 1 OPT, 2 OPT+DO, 3 OPT+ECS, 4 OPT with EDNS version 1, 5 OPT with cookie and NSID
	ECS      string `json:"ecs,omitempty"`
}

type c12Case struct {
	Backend string  `json:"backend"`
	LRU     int     `json:"lru"`
	Ops     []c12Op `json:"ops"`
	Detail  string  `json:"detail,omitempty"`
}

func c12Msg(op c12Op) *dns.Msg {
	q := kit.StampQueries[op.Query]
	name := q.Name
	if op.Upper {
		name = strings.ToUpper(name)
	}
	m := new(dns.Msg)
	m.Id = 4242
	m.Question = []dns.Question{{Name: name, Qtype: q.Type, Qclass: op.Class}}
	if op.Opt > 0 {
		o := &dns.OPT{Hdr: dns.RR_Header{Name: ".", Rrtype: dns.TypeOPT}}
		o.SetUDPSize(1232)
		if op.Opt == 2 {
			o.SetDo()
		}
		if op.Opt == 4 {
			o.SetVersion(1)
		}
		if op.Opt == 5 {
			o.Option = append(o.Option, &dns.EDNS0_COOKIE{Code: dns.EDNS0COOKIE, Cookie: "0123456789abcdef"}, &dns.EDNS0_NSID{Code: dns.EDNS0NSID, Nsid: ""})
		}
		if op.Opt == 3 {
			_, n, _ := net.ParseCIDR(op.ECS)
			ones, _ := n.Mask.Size()
			o.Option = append(o.Option, &dns.EDNS0_SUBNET{Code: dns.EDNS0SUBNET, Family: 1, SourceNetmask: uint8(ones), Address: n.IP.To4()})
		}
		m.Extra = []dns.RR{o}
	}
	return m
}

func c12Weighted(section, owner string, typ uint16) bool {
	// multi has three addresses; www has an untagged plus a location-tagged A,
	// so clients with a location get a weighted pick there as well
	return (owner == "multi.example.com" || owner == "www.example.com") && typ == 1
}

// c12Render is what must be equal between the cached and the uncached
// handler: everything but owner-name case and weighted picks.
func c12Render(m *dns.Msg) string {
	if m == nil {
		return "<nothing written>"
	}
	s := kit.Normal(m, c12Weighted)
	if len(m.Question) > 0 {
		s += fmt.Sprintf("question=%s/%d/%d id=%d qr=%v\n", m.Question[0].Name, m.Question[0].Qtype, m.Question[0].Qclass, m.Id, m.Response)
	}
	if o := m.IsEdns0(); o != nil {
		s += fmt.Sprintf("opt udp=%d do=%v version=%d", o.UDPSize(), o.Do(), o.Version())
		for _, e := range o.Option {
			if x, ok := e.(*dns.EDNS0_SUBNET); ok {
				s += fmt.Sprintf(" ecs=%d/%s/%d/%d", x.Family, x.Address, x.SourceNetmask, x.SourceScope)
			} else {
				s += fmt.Sprintf(" option=%d", e.Option())
			}
		}
		s += "\n"
	}
	return s
}

func genC12Ops(t *rapid.T) []c12Op {
	n := rapid.IntRange(5, 40).Draw(t, "nops")
	pool := rapid.SliceOfNDistinct(rapid.IntRange(0, len(kit.StampQueries)-1), 1, 4, func(i int) int { return i }).Draw(t, "pool")
	ops := make([]c12Op, n)
	for i := range ops {
		if rapid.IntRange(0, 9).Draw(t, "isreload") == 0 {
			ops[i] = c12Op{Reload: rapid.SampledFrom([]string{"full", "partial"}).Draw(t, "reloadkind")}
			continue
		}
		op := c12Op{Query: rapid.SampledFrom(pool).Draw(t, "query"), Upper: rapid.IntRange(0, 3).Draw(t, "upper") == 0, Class: 1}
		if rapid.IntRange(0, 9).Draw(t, "chaos") == 0 {
			op.Class = rapid.SampledFrom([]uint16{3, 255}).Draw(t, "class")
		}
		op.Resolver = rapid.SampledFrom([]string{"10.9.9.9", "192.0.2.9", "2001:db8::9", "198.51.100.1"}).Draw(t, "resolver")
		op.Opt = rapid.SampledFrom([]int{0, 0, 1, 1, 2, 3, 3, 3, 4, 5}).Draw(t, "opt")
		if op.Opt == 3 {
			op.ECS = rapid.SampledFrom([]string{"10.1.0.0/16", "192.0.2.0/24", "198.51.100.0/24", "10.0.0.0/7"}).Draw(t, "ecs")
		}
		ops[i] = op
	}
	return ops
}

func c12Run(t kit.Fataler, b kit.Backend, lru int, ops []c12Op, record bool) {
	cs := c12Case{Backend: b.String(), LRU: lru, Ops: ops}
	stOn := kit.NewSchedStats(nil)
	on, err := newC05World(b, dnsserver.CacheConfig{Enabled: true, LRUSize: lru}, stOn)
	if err != nil {
		kit.Fail(t, "C12", "setup-error", cs, "setup: %v", err)
		return
	}
	defer on.close()
	off, err := newC05World(b, dnsserver.CacheConfig{}, nil)
	if err != nil {
		kit.Fail(t, "C12", "setup-error", cs, "setup: %v", err)
		return
	}
	defer off.close()
	type seenKey struct {
		q     int
		class uint16
	}
	lastAsker := map[seenKey]c12Op{}
	reloadSince := map[seenKey]bool{}
	for i, op := range ops {
		if op.Reload != "" {
			for _, w := range []*c05World{on, off} {
				if op.Reload == "partial" {
					if err := w.stage(); err != nil {
						kit.Fail(t, "C12", "setup-error", cs, "stage: %v", err)
					}
				}
				kind := "partial"
				if op.Reload == "full" {
					kind = "full-ok"
				}
				sig, target, err := w.prepareReload(kind)
				if err != nil {
					kit.Fail(t, "C12", "setup-error", cs, "prepare: %v", err)
				}
				if err := w.h.Reload(sig); err != nil {
					kit.Fail(t, "C12", "reload-failed", cs, "op %d: reload %s failed: %v", i, op.Reload, err)
				}
				if kind == "full-ok" {
					w.served = target
				}
				w.committed = w.pathGen[w.served]
			}
			if on.committed != off.committed {
				kit.Fail(t, "C12", "harness-error", cs, "generations diverged in the harness: %d vs %d", on.committed, off.committed)
			}
			for k := range lastAsker {
				reloadSince[k] = true
			}
			continue
		}
		req := c12Msg(op)
		hitsBefore := stOn.Snapshot()["DNS_cache.hit"]
		rOn, _, _ := kit.AskMsg(on.h, req.Copy(), op.Resolver, 1, true)
		rOff, _, _ := kit.AskMsg(off.h, req.Copy(), op.Resolver, 1, true)
		hit := stOn.Snapshot()["DNS_cache.hit"] > hitsBefore
		a, bb := c12Render(rOn), c12Render(rOff)
		if a != bb {
			cs.Detail = fmt.Sprintf("op %d hit=%v", i, hit)
			key := "cached-differs-from-uncached"
			if kit.StampQueries[op.Query].Type == 65 && op.Upper != lastAsker[seenKey{op.Query, op.Class}].Upper {
				key = "https-additional-case"
			}
			kit.Fail(t, "C12", key, cs, "op %d (%+v, cache hit=%v): with the cache\n%s\nwithout\n%s", i, op, hit, a, bb)
		}
		for _, x := range kit.Stamps(rOn) {
			if x != on.committed {
				kit.Fail(t, "C12", "stale-generation-served", cs, "op %d (%+v, cache hit=%v): the cache-enabled handler answered from generation %d after the reload to %d completed: %s", i, op, hit, x, on.committed, kit.Brief(rOn))
			}
		}
		if record {
			k := seenKey{op.Query, op.Class}
			prev, seen := lastAsker[k]
			if hit && seen && (prev.Upper != op.Upper || prev.Opt != op.Opt || prev.Resolver != op.Resolver || prev.ECS != op.ECS) {
				kit.Class("hit-after-different-asker")
				kit.NonTrivial(fmt.Sprintf("%s|hit|%d|%v|%v|%v|%v|%d", b, op.Query, prev.Upper != op.Upper, prev.Opt != op.Opt, prev.Resolver != op.Resolver, prev.ECS != op.ECS, lru))
			}
			if seen && reloadSince[k] {
				kit.Class("same-key-across-reload")
				kit.NonTrivial(fmt.Sprintf("%s|reload-between|%d|%d|%v", b, op.Query, op.Class, hit))
			}
			if hit {
				kit.Class("cache-hit")
			} else {
				kit.Class("cache-miss")
			}
			lastAsker[k] = op
			reloadSince[k] = false
		}
	}
}

// c12Stale: an in-flight query computed on the old generation must not leave
// its answer in the cache after the reload has purged it.
func c12Stale(t kit.Fataler, b kit.Backend, query int, parkAt string, reloadKind string) {
	installYieldHook()
	cs := c12Case{Backend: b.String(), LRU: 16, Detail: fmt.Sprintf("stale-insert query=%d park=%s reload=%s", query, parkAt, reloadKind)}
	// weighted answers are cached only when a WRS timeout is configured: those
	// questions are run with one, all others without
	wrsTimeout := int64(0)
	if kit.StampQueries[query].Name == "multi.example.com." {
		wrsTimeout = 300
	}
	s := kit.NewSched()
	s.Filter = func(p string) bool { return p == parkAt || strings.HasPrefix(p, "reload.") }
	w, err := newC05World(b, dnsserver.CacheConfig{Enabled: true, LRUSize: 16, WRSTimeout: wrsTimeout}, kit.NewSchedStats(s))
	if err != nil {
		kit.Fail(t, "C12", "setup-error", cs, "setup: %v", err)
		return
	}
	setSched(s)
	defer func() {
		setSched(nil)
		w.close()
	}()
	q := kit.StampQueries[query]
	var r1 *dns.Msg
	q1 := s.Spawn("Q1", func() {
		wr := &kit.Writer{Remote: "192.0.2.9", TCP: true}
		_, _ = w.h.ServeDNS(dnsserver.WithMaxAnswer(context.Background(), 1), wr, kit.BuildMsg(q, kit.Client{}, 1))
		if len(wr.Msgs) > 0 {
			r1 = wr.Msgs[0]
		}
	})
	p, err := s.Advance(q1)
	if err != nil {
		kit.Fail(t, "C12", "stuck", cs, "%v", err)
	}
	if p != parkAt {
		kit.Class("stale-schedule-point-not-on-path")
		return // this query does not pass that point (e.g. referrals skip the answer search)
	}
	if reloadKind == "partial" {
		if b != kit.CDB {
			// a RocksDB catch-up under an in-flight query is the C05 known finding; use a full reload there
			reloadKind = "full-ok"
		} else if err := w.stage(); err != nil {
			kit.Fail(t, "C12", "setup-error", cs, "stage: %v", err)
		}
	}
	sig, target, err := w.prepareReload(reloadKind)
	if err != nil {
		kit.Fail(t, "C12", "setup-error", cs, "prepare: %v", err)
	}
	var rerr error
	r := s.Spawn("R", func() { rerr = w.h.Reload(sig) })
	if err := s.Finish(r); err != nil || rerr != nil {
		kit.Fail(t, "C12", "reload-failed", cs, "reload: %v %v", err, rerr)
	}
	if reloadKind == "full-ok" {
		w.served = target
	}
	w.committed = w.pathGen[w.served]
	if err := s.Finish(q1); err != nil {
		kit.Fail(t, "C12", "stuck", cs, "%v", err)
	}
	_ = r1
	setSched(nil)
	for i := 0; i < 2; i++ {
		r2, _, _ := kit.AskMsg(w.h, kit.BuildMsg(q, kit.Client{}, 2), "192.0.2.9", 1, true)
		for _, x := range kit.Stamps(r2) {
			if x != w.committed {
				kit.Fail(t, "C12", "stale-insert-after-purge", cs, "a query in flight across the reload (parked at %s) left its generation-%d answer in the cache: a later identical query got generation %d after the reload to %d had completed: %s", parkAt, x, x, w.committed, kit.Brief(r2))
			}
		}
	}
}

func TestC12(t *testing.T) {
	if f := kit.ReplayFile(); f != "" {
		var c c12Case
		kit.LoadReplay(t, f, &c)
		for _, b := range kit.AllBackends {
			if b.String() != c.Backend {
				continue
			}
			if strings.HasPrefix(c.Detail, "stale-insert") {
				var q int
				var park, kind string
				fmt.Sscanf(c.Detail, "stale-insert query=%d park=%s reload=%s", &q, &park, &kind)
				c12Stale(t, b, q, park, kind)
			} else {
				c12Run(t, b, c.LRU, c.Ops, false)
			}
		}
		kit.Eval()
		return
	}
	// (ii) stale insert schedules: every stamped query x park point x reload kind
	n := 0
	for qi := range kit.StampQueries {
		for _, park := range []string{"query.before-cache-insert", "query.answer-found", "query.cache-probed", "query.location-found", "query.reader-acquired"} {
			for _, kind := range []string{"full-ok", "partial"} {
				for _, b := range kit.AllBackends {
					n++
					if n%kit.NShards() != kit.Shard() {
						continue
					}
					c12Stale(t, b, qi, park, kind)
					kit.Eval()
					kit.NonTrivial(fmt.Sprintf("stale|%s|%d|%s|%s", b, qi, park, kind))
					kit.Class("stale-insert-schedule")
				}
			}
		}
	}
	// (i) differential histories
	kit.SetRapid(kit.N(640, 6000))
	rapid.Check(t, kit.Prop("C12", func(t *rapid.T) {
		b := rapid.SampledFrom(kit.AllBackends).Draw(t, "backend")
		lru := rapid.SampledFrom([]int{2, 3, 8, 64}).Draw(t, "lru")
		ops := genC12Ops(t)
		kit.Case(c12Case{Backend: b.String(), LRU: lru, Ops: ops})
		c12Run(t, b, lru, ops, true)
		kit.Sample(c12Case{Backend: b.String(), LRU: lru, Ops: ops})
	}))
}
