package props

import (
	"fmt"
	"strings"
	"testing"

	"github.com/miekg/dns"
	"pgregory.net/rapid"

	"verif/kit"
)

// C04: a client sees its own location's records plus untagged ones, nothing
// else.  Metamorphic: records tagged with a location no client can have, and
// subnets of maps no name refers to, are added to / changed in a data file;
// no response to any client may change.

// the foreign location differs from the real location "La" only in letter
// case in half of the cases: location ids are opaque bytes
const foreignLoc = "zz"

var foreignLocs = []string{"zz", "LA", "lA", "L1"}

type c04Case struct {
	Base    *kit.World `json:"base"`
	Edits   []kit.Line `json:"edits"`
	Variant string     `json:"variant_text"`
	Query   kit.Query  `json:"query"`
	Client  kit.Client `json:"client"`
	Backend string     `json:"backend"`
	Answers []string   `json:"answers,omitempty"`
}

func c04Edits(t *rapid.T, w *kit.World, tag string) []kit.Line {
	names := map[string]bool{}
	for _, r := range w.RRs() {
		names[r.Owner] = true
		for p := r.Owner; p != ""; {
			if i := strings.IndexByte(p, '.'); i >= 0 {
				p = p[i+1:]
			} else {
				p = ""
			}
			if p != "" {
				names[p] = true
			}
		}
		if r.Type == 2 || r.Type == 15 || r.Type == 5 {
			rd := r.RData
			if r.Type == 15 && len(rd) > 2 {
				rd = rd[2:]
			}
			var labels []string
			for len(rd) > 0 && rd[0] != 0 && int(rd[0]) < len(rd) {
				labels = append(labels, string(rd[1:1+int(rd[0])]))
				rd = rd[1+int(rd[0]):]
			}
			names[strings.Join(labels, ".")] = true
		}
	}
	var pool []string
	for n := range names {
		if n != "" && len(n) < 200 {
			pool = append(pool, n)
		}
	}
	sortStrings(pool)
	if len(pool) == 0 {
		pool = []string{"a.com"}
	}
	n := rapid.IntRange(1, 6).Draw(t, tag+"-n")
	var out []kit.Line
	for i := 0; i < n; i++ {
		owner := rapid.SampledFrom(pool).Draw(t, tag+"-owner")
		switch rapid.IntRange(0, 3).Draw(t, tag+"-rel") {
		case 0:
			owner = rapid.SampledFrom(kit.Labels).Draw(t, tag+"-child") + "." + owner
		case 1:
			if i := strings.IndexByte(owner, '.'); i >= 0 {
				owner = rapid.SampledFrom(kit.Labels).Draw(t, tag+"-sib") + owner[i:]
			}
		}
		kind := rapid.SampledFrom([]byte("+++CC'Z&&.@")).Draw(t, tag+"-kind")
		l := kit.Line{K: kind, Owner: owner, TTL: int64(rapid.SampledFrom([]int{-1, 0, 7}).Draw(t, tag+"-ttl")), Loc: rapid.SampledFrom(foreignLocs).Draw(t, tag+"-floc"), N: none5}
		if strings.IndexByte("+C'", kind) >= 0 && rapid.IntRange(0, 2).Draw(t, tag+"-wild") == 0 {
			l.Wild = true
		}
		switch kind {
		case '+':
			l.IP = rapid.SampledFrom([]string{"203.0.113.66", "2001:db8:66::66"}).Draw(t, tag+"-ip")
			l.N[0] = int64(rapid.SampledFrom([]int{-1, 0, 1000000}).Draw(t, tag+"-w"))
		case 'C':
			l.X = "foreign.example.net"
		case '\'':
			l.Text = []byte("foreign")
		case 'Z':
			l.X, l.Adm = "foreign-ns."+owner, "foreign-adm."+owner
		case '&', '.':
			l.X = rapid.SampledFrom([]string{"a", "ns." + owner, "foreign-ns.example.net"}).Draw(t, tag+"-x")
			if rapid.Bool().Draw(t, tag+"-hasip") {
				l.IP = "203.0.113.67"
			}
		case '@':
			l.X = rapid.SampledFrom([]string{"a", "mail." + owner}).Draw(t, tag+"-x")
			l.IP = "203.0.113.68"
		}
		out = append(out, l)
	}
	// a map id that no name refers to but that sorts directly before one that is in use
	// (same first byte), given default routes: lookups in the used map must not see it
	if rapid.Bool().Draw(t, tag+"-neighbour-map") {
		used := map[string]bool{}
		for _, l := range w.Lines {
			if l.K == 'M' || l.K == '8' {
				used[l.MapID] = true
			}
		}
		var ids []string
		for id := range used {
			ids = append(ids, id)
		}
		sortStrings(ids)
		if len(ids) > 0 {
			id := rapid.SampledFrom(ids).Draw(t, tag+"-nbr-of")
			if len(id) == 2 && id[1] > 0 {
				nb := string([]byte{id[0], id[1] - 1})
				if !used[nb] {
					lo := rapid.SampledFrom([]string{"l1", "l2", "La"}).Draw(t, tag+"-nbr-loc")
					out = append(out, kit.Line{K: '%', Loc: lo, CIDR: "0.0.0.0/0", MapID: nb, TTL: -1}, kit.Line{K: '%', Loc: lo, CIDR: "::/0", MapID: nb, TTL: -1})
				}
			}
		}
	}
	// subnets of maps that no name refers to (one sorting before, one after the others)
	ns := rapid.IntRange(0, 3).Draw(t, tag+"-nsub")
	for i := 0; i < ns; i++ {
		cidr := rapid.SampledFrom([]string{"10.0.0.1/32", "10.0.0.0/8", "0.0.0.0/0", "::/0", "2001:db8::1/128", "2001:db8::/33", "10.0.0.2/31", "192.0.2.0/25"}).Draw(t, tag+"-cidr")
		m := rapid.SampledFrom([]string{"\x00\x01", "zm", "\xff\xff", "m0", "m9", "\x00\x06"}).Draw(t, tag+"-map")
		lo := rapid.SampledFrom([]string{"l1", "l2", "La", foreignLoc}).Draw(t, tag+"-subloc")
		dup := false
		for _, x := range out {
			if x.K == '%' && x.MapID == m && x.CIDR == cidr {
				dup = true
			}
		}
		if !dup {
			out = append(out, kit.Line{K: '%', Loc: lo, CIDR: cidr, MapID: m, TTL: -1})
		}
	}
	// subnets of the default map (no map id): that map applies only to names that
	// have no resolver ('M') map, so for every name that has one they are subnets
	// "of a map that does not apply to the queried name" (c04Run compares only
	// those names for such a variant)
	if rapid.IntRange(0, 2).Draw(t, tag+"-defmap") == 0 {
		have := map[string]bool{}
		canon := func(c string) string {
			ip, n, _, ok := kit.ParseSubnet(c)
			if !ok {
				return c
			}
			return fmt.Sprintf("%s/%d", ip, n)
		}
		for _, l := range w.Lines {
			if l.K == '%' && l.MapID == "" {
				have[canon(l.CIDR)] = true
			}
		}
		nd := rapid.IntRange(1, 3).Draw(t, tag+"-ndef")
		for i := 0; i < nd; i++ {
			cidr := rapid.SampledFrom([]string{"0.0.0.0/0", "::/0", "10.0.0.0/8", "10.0.0.1/32", "2001:db8::/32", "2001:db8::1/128", "192.0.2.0/24"}).Draw(t, tag+"-defcidr")
			if have[canon(cidr)] {
				continue
			}
			have[canon(cidr)] = true
			lo := rapid.SampledFrom([]string{"l1", "l2", "La", foreignLoc}).Draw(t, tag+"-defloc")
			out = append(out, kit.Line{K: '%', Loc: lo, CIDR: cidr, MapID: "", TTL: -1})
		}
	}
	return out
}

// touchesDefaultMap: the variant adds subnets to the default map.
func touchesDefaultMap(edits []kit.Line) bool {
	for _, e := range edits {
		if e.K == '%' && e.MapID == "" {
			return true
		}
	}
	return false
}

func sortStrings(s []string) {
	for i := 1; i < len(s); i++ {
		for j := i; j > 0 && s[j] < s[j-1]; j-- {
			s[j], s[j-1] = s[j-1], s[j]
		}
	}
}

func withEdits(w *kit.World, e []kit.Line) *kit.World {
	v := &kit.World{Serial: w.Serial}
	v.Lines = append(v.Lines, w.Lines...)
	v.Lines = append(v.Lines, e...)
	return v
}

// onPath reports whether an edited owner lies on the lookup path of qname.
func onPath(qname string, edits []kit.Line) string {
	q := kit.CanonName(qname)
	for _, e := range edits {
		o := kit.CanonName(e.Owner)
		if e.K == '%' || o == "" {
			continue
		}
		if o == q {
			return "qname"
		}
		if strings.HasSuffix(q, "."+o) {
			return "ancestor"
		}
	}
	return ""
}

func c04Run(t kit.Fataler, base *kit.World, variants [][]kit.Line, qs []c01Q, record bool) {
	worlds := []*kit.World{base}
	for _, e := range variants {
		worlds = append(worlds, withEdits(base, e))
	}
	maps := base.Maps()
	ac := addrCounts(base)
	weighted := func(section, owner string, typ uint16) bool {
		return section == "additional" && ac[fmt.Sprintf("%s/%d", owner, typ)] > 1
	}
	type sv struct {
		served  []kit.Served
		cleanup func()
	}
	var all []sv
	defer func() {
		for _, s := range all {
			s.cleanup()
		}
	}()
	for i, w := range worlds {
		served, cleanup, err := kit.ServeAll(w.Text(), w.Serial, kit.AllBackends, kit.DefaultCompile, kit.HandlerOpts{})
		if err != nil {
			kit.Fail(t, "C04", "compile-error", c04Case{Base: base, Variant: string(w.Text())}, "variant %d failed to compile/open: %v", i, err)
			return
		}
		all = append(all, sv{served, cleanup})
	}
	for _, x := range qs {
		x.q.MaxAns = 8
		for bi, b := range kit.AllBackends {
			var norms []string
			for _, s := range all {
				resp, _, err := kit.Ask(s.served[bi].H, x.q, x.c)
				n := kit.Normal(resp, weighted)
				if err != nil {
					n += "handler error: " + err.Error()
				}
				norms = append(norms, n)
			}
			for vi := 1; vi < len(norms); vi++ {
				if touchesDefaultMap(variants[vi-1]) {
					// the default map does apply to a name without a resolver map
					if _, found := kit.MapFor(maps, 'M', x.q.Name); !found {
						if bi == 0 {
							kit.Class("default-map-edit:applies-to-name(not compared)")
						}
						continue
					}
					if bi == 0 {
						kit.Class("default-map-edit:off-path")
						if x.c.ECS != nil {
							kit.Class("default-map-edit:off-path+ecs")
						}
					}
				}
				if norms[vi] != norms[0] {
					c := c04Case{Base: base, Edits: variants[vi-1], Variant: string(worlds[vi].Text()), Query: x.q, Client: x.c, Backend: b.String(), Answers: []string{norms[0], norms[vi]}}
					kind := "record-edit"
					if onPath(x.q.Name, variants[vi-1]) == "" {
						kind = "off-path-edit"
					}
					kit.Fail(t, "C04", kind+"/"+b.String(), c, "%s: %s %d from %s (ecs %v): without the foreign-location edit\n%s\nwith it\n%s", b, x.q.Name, x.q.Type, x.c.Resolver, x.c.ECS, norms[0], norms[vi])
				}
			}
			if record {
				lr := base.Locate(x.q.Name, x.c)
				for vi := range variants {
					if pos := onPath(x.q.Name, variants[vi]); pos != "" {
						locClass := "noloc"
						if lr.Loc != [2]byte{} {
							locClass = "loc"
						}
						kit.Class("on-path:" + pos + "/" + locClass)
						if !strings.HasPrefix(norms[0], "rcode=REFUSED") {
							kit.NonTrivial(fmt.Sprintf("%s|%s|%s|%d|%v|%s", b, pos, x.q.Name, x.q.Type, x.c, worlds[vi+1].Text()))
						}
					} else {
						kit.Class("off-path")
					}
				}
			}
		}
	}
}

// c04OwnVisible is the other half of the property: a record tagged with the
// client's own location is served to that client.  For up to three (name,
// client) pairs with a location (reference model), whose name is answered
// authoritatively and without a CNAME, a TXT record tagged with that location
// is added at the name; the client must get it, on every backend.
func c04OwnVisible(t kit.Fataler, base *kit.World, qs []c01Q, record bool) {
	served, cleanup, err := kit.ServeAll(base.Text(), base.Serial, []kit.Backend{kit.CDB}, kit.DefaultCompile, kit.HandlerOpts{})
	if err != nil {
		return
	}
	type pick struct {
		x   c01Q
		loc string
	}
	var picks []pick
	var edits []kit.Line
	seen := map[string]bool{}
	hasCNAME := map[string]bool{}
	for _, r := range base.RRs() {
		if r.Type == 5 {
			hasCNAME[r.Owner] = true
		}
	}
	for _, x := range qs {
		if len(picks) >= 3 {
			break
		}
		lr := base.Locate(x.q.Name, x.c)
		name := kit.CanonName(x.q.Name)
		if lr.Loc == [2]byte{} || name == "" || seen[name] || hasCNAME[name] || strings.Contains(name, "*") || len(name) > 200 {
			continue
		}
		q := x.q
		q.Type, q.Class, q.MaxAns = 16, 1, 8
		resp, _, err := kit.Ask(served[0].H, q, x.c)
		if err != nil || resp == nil || !resp.Authoritative || (resp.Rcode != dns.RcodeSuccess && resp.Rcode != dns.RcodeNameError) {
			continue
		}
		cn := false
		for _, rr := range resp.Answer {
			if rr.Header().Rrtype == dns.TypeCNAME {
				cn = true
			}
		}
		if cn {
			continue
		}
		seen[name] = true
		loc := string(lr.Loc[:])
		picks = append(picks, pick{c01Q{q, x.c}, loc})
		edits = append(edits, kit.Line{K: '\'', Owner: name, Text: []byte("own-location-marker " + name), TTL: -1, Loc: loc, N: none5})
	}
	cleanup()
	if len(picks) == 0 {
		return
	}
	v := withEdits(base, edits)
	all, cleanup2, err := kit.ServeAll(v.Text(), v.Serial, kit.AllBackends, kit.DefaultCompile, kit.HandlerOpts{})
	if err != nil {
		kit.Fail(t, "C04", "compile-error", c04Case{Base: base, Edits: edits, Variant: string(v.Text())}, "world with own-location records failed to compile/open: %v", err)
		return
	}
	defer cleanup2()
	for _, p := range picks {
		for _, s := range all {
			resp, _, err := kit.Ask(s.H, p.x.q, p.x.c)
			found := false
			if resp != nil {
				for _, rr := range resp.Answer {
					if x, ok := rr.(*dns.TXT); ok && strings.HasPrefix(strings.Join(x.Txt, ""), "own-location-marker ") {
						found = true
					}
				}
			}
			if !found {
				c := c04Case{Base: base, Edits: edits, Variant: string(v.Text()), Query: p.x.q, Client: p.x.c, Backend: s.Backend.String(), Answers: []string{kit.Normal(resp, nil)}}
				kit.Fail(t, "C04", "own-location-record-not-served/"+s.Backend.String(), c, "%s: a TXT record tagged %q was added at %s; the client %s (ecs %v), which the subnet maps place in %q, does not get it (err %v):\n%s", s.Backend, p.loc, p.x.q.Name, p.x.c.Resolver, p.x.c.ECS, p.loc, err, kit.Normal(resp, nil))
			}
		}
		if record {
			kit.Class("own-location-record-visible")
			kit.NonTrivial("own|" + p.x.q.Name + "|" + p.loc + "|" + p.x.c.Resolver)
		}
	}
}

func TestC04(t *testing.T) {
	if f := kit.ReplayFile(); f != "" {
		var c c04Case
		kit.LoadReplay(t, f, &c)
		c04Run(t, c.Base, [][]kit.Line{c.Edits}, []c01Q{{c.Query, c.Client}}, false)
		c04OwnVisible(t, c.Base, []c01Q{{c.Query, c.Client}}, false)
		kit.Eval()
		return
	}
	kit.SetRapid(kit.N(320, 6000))
	rapid.Check(t, kit.Prop("C04", func(t *rapid.T) {
		base := kit.GenWorld(t, kit.GenOpts{Wide: rapid.Bool().Draw(t, "wide"), MaxLines: 30})
		ea := c04Edits(t, base, "ea")
		eb := c04Edits(t, base, "eb")
		qw := withEdits(base, append(append([]kit.Line{}, ea...), eb...))
		names := kit.QueryNames(qw)
		nq := rapid.IntRange(10, 30).Draw(t, "nq")
		qs := make([]c01Q, nq)
		for i := range qs {
			qs[i] = c01Q{kit.GenQuery(t, qw, names), kit.GenClient(t)}
		}
		kit.Case(c04Case{Base: base, Edits: ea, Variant: string(withEdits(base, eb).Text())})
		c04Run(t, base, [][]kit.Line{ea, eb}, qs, true)
		c04OwnVisible(t, base, qs, true)
		kit.ClassN("queries", int64(nq))
		kit.Sample(map[string]interface{}{"base": string(base.Text()), "edit_a": string((&kit.World{Lines: ea}).Text()), "edit_b": string((&kit.World{Lines: eb}).Text())})
	}))
}
