package props

import (
	"bytes"
	"fmt"
	"os"
	"runtime"
	"sort"
	"strings"
	"testing"
	"time"

	"github.com/facebookincubator/dns/dnsrocks/dnsdata"
	"pgregory.net/rapid"

	"verif/kit"
)

// C07: compilation is a deterministic, lossless function of the data file.
//
// expected = records the line codec emits when the harness feeds it the file
// line by line, sequentially (+ accumulator + feature record);
// observed = complete dump of the produced CDB file / RocksDB directory;
// compared as key -> multiset of values, for every compiler setting.

// ---------------------------------------------------------------------------
// case description (self-contained, replayable)

type c07Setting struct {
	Backend   string `json:"backend"` // cdb | rdb-v1 | rdb-v2
	Workers   int    `json:"workers"`
	Builder   bool   `json:"builder,omitempty"`
	Hardlinks bool   `json:"hardlinks,omitempty"`
	BatchSize int    `json:"batch_size"` // 0 = compiler default (100000)
	BatchPar  int    `json:"batch_parallel"`
	Procs     int    `json:"gomaxprocs"`
}

func (s c07Setting) mode() string {
	switch {
	case s.Backend == "cdb":
		return "cdb"
	case s.Builder:
		return "builder"
	default:
		return "batch"
	}
}

func (s c07Setting) String() string {
	switch s.mode() {
	case "cdb":
		return fmt.Sprintf("cdb/w%d/p%d", s.Workers, s.Procs)
	case "builder":
		return fmt.Sprintf("%s/w%d/builder/hl=%v/p%d", s.Backend, s.Workers, s.Hardlinks, s.Procs)
	default:
		return fmt.Sprintf("%s/w%d/batch%d/par%d/p%d", s.Backend, s.Workers, s.BatchSize, s.BatchPar, s.Procs)
	}
}

// tuple is the setting without the scheduler knob (used in signatures).
func (s c07Setting) tuple() string {
	x := s
	x.Procs = 0
	return x.String()
}

func (s c07Setting) backend() kit.Backend {
	switch s.Backend {
	case "cdb":
		return kit.CDB
	case "rdb-v1":
		return kit.RDBv1
	default:
		return kit.RDBv2
	}
}

type c07Heavy struct {
	Pos   int `json:"pos"`   // index of the key's first record among the '+' records in sorted key order
	Count int `json:"count"` // number of values of the key
	Dups  int `json:"dups"`  // how many of them are byte-identical copies of the first value
}

// c07Bulk describes a large synthetic file; its text is a pure function of
// these fields (c07BulkText).
type c07Bulk struct {
	Lines   int        `json:"lines"` // number of '+' lines
	Heavy   []c07Heavy `json:"heavy"`
	Order   string     `json:"order"` // sorted | reversed | stride
	Stride  int        `json:"stride,omitempty"`
	Subnets []string   `json:"subnets,omitempty"` // complete '%' lines
	// PairEvery > 1: every PairEvery-th '+' record that no heavy key covers starts
	// a key with two records, so that (in stride order) the later batches of a
	// batch-mode compilation find a large share of their keys already stored
	PairEvery   int  `json:"pair_every,omitempty"`
	SubnetsLast bool `json:"subnets_last,omitempty"`
}

type c07Case struct {
	Kind     string       `json:"kind"` // world | bulk | deadlock
	Text     string       `json:"text,omitempty"`
	Bulk     *c07Bulk     `json:"bulk,omitempty"`
	Serial   uint32       `json:"serial"`
	Bad      string       `json:"bad_line,omitempty"`
	BadKind  string       `json:"bad_kind,omitempty"`
	BadAt    int          `json:"bad_at,omitempty"` // line index the bad line is inserted at
	NoEOL    bool         `json:"no_final_newline,omitempty"`
	Settings []c07Setting `json:"settings"`
	Failed   string       `json:"failed_setting,omitempty"`
	Detail   string       `json:"detail,omitempty"`
}

// ---------------------------------------------------------------------------
// text

func c07BulkName(k int) string { return fmt.Sprintf("n%06d.b.example.com", k) }

// c07BulkText renders the bulk file: '+' lines over the name space n000000..,
// one line per single key, Count lines for a heavy key, laid out so that in
// sorted key order the heavy key's first record is '+' record number Pos.
func c07BulkText(b *c07Bulk) []byte {
	lines := make([]string, 0, b.Lines)
	heavy := append([]c07Heavy(nil), b.Heavy...)
	sort.Slice(heavy, func(i, j int) bool { return heavy[i].Pos < heavy[j].Pos })
	if b.PairEvery > 1 {
		explicit := heavy
		ei := 0
		var all []c07Heavy
		for p := 0; p+2 <= b.Lines; p += b.PairEvery {
			for ei < len(explicit) && explicit[ei].Pos+explicit[ei].Count <= p {
				ei++
			}
			if ei < len(explicit) && explicit[ei].Pos < p+2 {
				continue // a heavy key covers or starts inside the pair
			}
			all = append(all, c07Heavy{Pos: p, Count: 2})
		}
		heavy = append(all, explicit...)
		sort.Slice(heavy, func(i, j int) bool { return heavy[i].Pos < heavy[j].Pos })
	}
	k := 0
	hi := 0
	for len(lines) < b.Lines {
		for hi < len(heavy) && heavy[hi].Pos < len(lines) {
			hi++ // overlapping or unreachable spec: ignored
		}
		if hi < len(heavy) && heavy[hi].Pos == len(lines) && len(lines)+heavy[hi].Count <= b.Lines {
			h := heavy[hi]
			hi++
			name := c07BulkName(k)
			for j := 0; j < h.Count; j++ {
				v := j
				if j < h.Dups {
					v = 0
				}
				lines = append(lines, fmt.Sprintf("+%s,10.%d.%d.%d", name, 200+(v>>16), (v>>8)&255, v&255))
			}
			k++
			continue
		}
		if hi < len(heavy) && heavy[hi].Pos == len(lines) {
			hi++
		}
		lines = append(lines, fmt.Sprintf("+%s,10.%d.%d.%d", c07BulkName(k), (k>>16)&127, (k>>8)&255, k&255))
		k++
	}
	n := len(lines)
	perm := func(i int) int { return i }
	switch b.Order {
	case "reversed":
		perm = func(i int) int { return n - 1 - i }
	case "stride":
		s := b.Stride % n
		if s < 1 {
			s = 1
		}
		for c07gcd(s, n) != 1 {
			s++
		}
		perm = func(i int) int { return int(int64(i) * int64(s) % int64(n)) }
	}
	var out bytes.Buffer
	out.Grow(n * 36)
	if !b.SubnetsLast {
		for _, s := range b.Subnets {
			out.WriteString(s)
			out.WriteByte('\n')
		}
	}
	for i := 0; i < n; i++ {
		out.WriteString(lines[perm(i)])
		out.WriteByte('\n')
	}
	if b.SubnetsLast {
		for _, s := range b.Subnets {
			out.WriteString(s)
			out.WriteByte('\n')
		}
	}
	return out.Bytes()
}

func c07gcd(a, b int) int {
	for b != 0 {
		a, b = b, a%b
	}
	return a
}

// c07Text is the data file of a case, bad line included.
func c07Text(c *c07Case) []byte {
	var text []byte
	if c.Kind == "bulk" {
		text = c07BulkText(c.Bulk)
	} else {
		text = []byte(c.Text)
	}
	if c.Bad != "" {
		ls := bytes.SplitAfter(text, []byte("\n"))
		if len(ls) > 0 && len(ls[len(ls)-1]) == 0 {
			ls = ls[:len(ls)-1]
		}
		at := c.BadAt
		if at > len(ls) {
			at = len(ls)
		}
		var b bytes.Buffer
		for i, l := range ls {
			if i == at {
				b.WriteString(c.Bad + "\n")
			}
			b.Write(l)
		}
		if at == len(ls) {
			if b.Len() > 0 && b.Bytes()[b.Len()-1] != '\n' {
				b.WriteByte('\n')
			}
			b.WriteString(c.Bad + "\n")
		}
		text = b.Bytes()
	}
	if c.NoEOL && len(text) > 0 && text[len(text)-1] == '\n' {
		text = text[:len(text)-1]
	}
	return text
}

// c07DataLines applies the documented line rule of the data format: leading
// blanks are ignored, empty lines and lines starting with '#' are comments.
func c07DataLines(text []byte) [][]byte {
	var out [][]byte
	for _, l := range bytes.Split(text, []byte("\n")) {
		l = bytes.TrimLeft(l, " ")
		if len(l) < 2 || l[0] == '#' {
			continue
		}
		out = append(out, l)
	}
	return out
}

// ---------------------------------------------------------------------------
// oracle: sequential line codec

type c07Exp struct {
	m        map[string][]string // key -> sorted values
	n        int                 // number of records
	order    []string            // keys in emission order (file order, then accumulator, then features)
	rejected int                 // index of the first rejected data line, -1 if none
	err      error
}

func c07Codec(serial uint32, b kit.Backend) *dnsdata.Codec {
	codec := new(dnsdata.Codec)
	codec.Serial = serial
	if b != kit.CDB {
		codec.Acc.Ranger.Enable()
		codec.Acc.NoPrefixSets = true
		codec.NoRnetOutput = true
		codec.Features.UseV2Keys = b == kit.RDBv2
	}
	return codec
}

func c07Expect(lines [][]byte, serial uint32, b kit.Backend, keepOrder bool) *c07Exp {
	e := &c07Exp{m: make(map[string][]string, len(lines)+8), rejected: -1}
	codec := c07Codec(serial, b)
	add := func(rs []dnsdata.MapRecord) {
		for _, r := range rs {
			k := string(r.Key)
			e.m[k] = append(e.m[k], string(r.Value))
			e.n++
			if keepOrder {
				e.order = append(e.order, k)
			}
		}
	}
	for i, l := range lines {
		rs, err := codec.ConvertLn(append([]byte(nil), l...))
		if err != nil {
			e.rejected, e.err = i, err
			return e
		}
		add(rs)
	}
	rs, err := codec.Acc.MarshalMap()
	if err != nil {
		e.rejected, e.err = len(lines), err
		return e
	}
	add(rs)
	rs, err = codec.Features.MarshalMap()
	if err != nil {
		e.rejected, e.err = len(lines), err
		return e
	}
	add(rs)
	for _, v := range e.m {
		if len(v) > 1 {
			sort.Strings(v)
		}
	}
	return e
}

// c07Diff compares an observed dump with the expectation; "" = equal.
func c07Diff(exp *c07Exp, got map[string][]string) (kind, msg string) {
	var bad []string
	for k, ev := range exp.m {
		gv, ok := got[k]
		if !ok || len(gv) != len(ev) {
			bad = append(bad, k)
			continue
		}
		if len(gv) > 1 && !sort.StringsAreSorted(gv) {
			gv = append([]string(nil), gv...)
			sort.Strings(gv)
		}
		for i := range ev {
			if ev[i] != gv[i] {
				bad = append(bad, k)
				break
			}
		}
	}
	for k := range got {
		if _, ok := exp.m[k]; !ok {
			bad = append(bad, k)
		}
	}
	if len(bad) == 0 {
		return "", ""
	}
	sort.Strings(bad)
	k := bad[0]
	ev, gv := exp.m[k], append([]string(nil), got[k]...)
	sort.Strings(gv)
	switch {
	case len(gv) == 0:
		kind = "key-lost"
	case len(ev) == 0:
		kind = "key-invented"
	case len(gv) < len(ev) && c07SubMultiset(gv, ev):
		kind = "value-lost"
	case len(gv) > len(ev) && c07SubMultiset(ev, gv):
		kind = "value-duplicated"
	default:
		kind = "value-altered"
	}
	show := func(v []string) string {
		var sb strings.Builder
		for i, x := range v {
			if i == 6 {
				fmt.Fprintf(&sb, " ... (%d values)", len(v))
				break
			}
			fmt.Fprintf(&sb, " %x", x)
		}
		return sb.String()
	}
	return kind, fmt.Sprintf("%d of %d keys differ; first: key %q expected %d value(s)%s, database holds %d value(s)%s",
		len(bad), len(exp.m), k, len(ev), show(ev), len(gv), show(gv))
}

// c07SubMultiset reports a <= b for sorted multisets.
func c07SubMultiset(a, b []string) bool {
	j := 0
	for _, x := range a {
		for j < len(b) && b[j] < x {
			j++
		}
		if j >= len(b) || b[j] != x {
			return false
		}
		j++
	}
	return true
}

// ---------------------------------------------------------------------------
// running the compiler under test

var c07Timing = os.Getenv("C07_TIMING") != ""

const c07DeadlockKey = "batch-parallel-0-deadlock"

type c07Result struct {
	path string
	err  error
}

// c07Compile runs one compilation under the setting's GOMAXPROCS.  It waits
// for the compiler as long as it takes: slowness is never a verdict.  The only
// way out without a result is a structural proof of deadlock in the batch
// compiler (c07BatchDeadlocked) seen in two goroutine dumps >= 5 s apart.
func c07Compile(text []byte, serial uint32, dir string, s c07Setting) (string, error, bool) {
	old := runtime.GOMAXPROCS(0)
	if s.Procs > 0 {
		runtime.GOMAXPROCS(s.Procs)
	}
	defer runtime.GOMAXPROCS(old)
	done := make(chan c07Result, 1)
	go func() {
		p, err := kit.Compile(text, serial, dir, s.backend(), kit.CompileOpts{
			Workers: s.Workers, Builder: s.Builder, Hardlinks: s.Hardlinks, BatchSize: s.BatchSize, BatchParallel: s.BatchPar,
		})
		done <- c07Result{p, err}
	}()
	start := time.Now()
	var confirmedAt, stuckSince time.Time
	tick := time.NewTicker(500 * time.Millisecond)
	defer tick.Stop()
	for {
		select {
		case r := <-done:
			return r.path, r.err, false
		case <-tick.C:
			if time.Since(start) < 2*time.Second {
				continue
			}
			// any mode: nothing of the compilation can run any more, for 15 s in a row
			if time.Since(start) >= 10*time.Second {
				if c07NothingCanRun("verif/kit.Compile") {
					if stuckSince.IsZero() {
						stuckSince = time.Now()
					} else if time.Since(stuckSince) >= 15*time.Second {
						c07HangKind = "stuck"
						return "", nil, true
					}
				} else {
					stuckSince = time.Time{}
				}
			}
			if s.mode() != "batch" {
				continue
			}
			if !c07BatchDeadlocked() {
				confirmedAt = time.Time{}
				continue
			}
			if confirmedAt.IsZero() {
				confirmedAt = time.Now()
			} else if time.Since(confirmedAt) >= 5*time.Second {
				c07HangKind = "batch-limiter"
				return "", nil, true
			}
		}
	}
}

// c07HangKind says which detector ended the last hung compilation.
var c07HangKind string

// c07NothingCanRun inspects a dump of all goroutines: the goroutine that called
// the compiler is still inside it, and every goroutine with a frame of the
// repository on its stack is parked on a channel, a lock, a wait group or a
// condition variable (none running, runnable, in a system / cgo call, sleeping
// or waiting for I/O).  Goroutines leaked by earlier error-path cases are parked
// for good and do not matter; compilations run one at a time.
func c07NothingCanRun(marker string) bool {
	buf := make([]byte, 16<<20)
	buf = buf[:runtime.Stack(buf, true)]
	inCompiler := false
	for _, g := range strings.Split(string(buf), "\n\n") {
		if !strings.Contains(g, "facebookincubator/dns/dnsrocks") {
			continue
		}
		head := g
		if i := strings.IndexByte(g, '\n'); i >= 0 {
			head = g[:i]
		}
		parked := false
		for _, st := range []string{"[chan send", "[chan receive", "[select", "[semacquire", "[sync.Mutex.Lock", "[sync.RWMutex", "[sync.WaitGroup.Wait", "[sync.Cond.Wait"} {
			if strings.Contains(head, st) {
				parked = true
			}
		}
		if !parked {
			return false
		}
		if strings.Contains(g, marker) {
			inCompiler = true
		}
	}
	return inCompiler
}

// c07BatchDeadlocked inspects a dump of all goroutines.  True iff
//   - the goroutine executing rdb.compileBatches is parked in a channel send
//     issued from one of its closures (the limiter send of the store closure),
//   - no goroutine anywhere is inside (*RDB).ExecuteBatch - the only code that
//     is followed by a receive from the limiter, and
//   - no goroutine with a dnsrocks/dnsdata frame on its stack is running,
//     runnable or inside a cgo/system call, i.e. nothing can make progress.
//
// Compilations are run one at a time, so what is seen belongs to the current
// one (goroutines leaked by earlier error-path cases are parked for good).
func c07BatchDeadlocked() bool {
	buf := make([]byte, 8<<20)
	buf = buf[:runtime.Stack(buf, true)]
	mainBlocked := false
	for _, g := range strings.Split(string(buf), "\n\n") {
		if !strings.Contains(g, "dnsrocks/dnsdata") {
			continue
		}
		head := g
		if i := strings.IndexByte(g, '\n'); i >= 0 {
			head = g[:i]
		}
		if strings.Contains(g, "rdb.(*RDB).ExecuteBatch") {
			return false
		}
		if strings.Contains(head, "[running") || strings.Contains(head, "[runnable") || strings.Contains(head, "[syscall") {
			return false
		}
		if strings.Contains(g, "dnsdata/rdb.compileBatches(") && strings.Contains(g, "dnsdata/rdb.compileBatches.func") && strings.Contains(head, "[chan send") {
			mainBlocked = true
		}
	}
	return mainBlocked
}

func c07Dump(path string, b kit.Backend) (map[string][]string, int, error) {
	if b == kit.CDB {
		kvs, err := kit.ParseCDB(path)
		if err != nil {
			return nil, 0, err
		}
		m := make(map[string][]string, len(kvs))
		for _, kv := range kvs {
			m[string(kv.Key)] = append(m[string(kv.Key)], string(kv.Value))
		}
		return m, len(kvs), nil
	}
	m, err := kit.DumpRDBc07(path)
	n := 0
	for _, v := range m {
		n += len(v)
	}
	return m, n, err
}

// c07Shape measures what makes a (file, setting) pair non-trivial.
type c07Shape struct {
	multi        int // keys with >= 2 values
	maxVals      int
	buckets      int // builder: number of SST buckets
	straddle     int // builder: nominal bucket boundaries that fall inside a key's run
	aligned      int // builder: nominal boundaries that meet the first/last record of a multi-value key exactly
	batches      int // batch mode: number of batches (file order)
	spanKeys     int // batch mode: keys whose values lie in >= 2 batches
	parallelMode bool
}

func c07Buckets(exp *c07Exp) (buckets, straddle, aligned int) {
	keys := make([]string, 0, len(exp.m))
	for k := range exp.m {
		keys = append(keys, k)
	}
	sort.Strings(keys)
	// run ends: key i occupies [start[i], start[i+1])
	start := make([]int, len(keys)+1)
	for i, k := range keys {
		start[i+1] = start[i] + len(exp.m[k])
	}
	total := start[len(keys)]
	maxBuckets := runtime.NumCPU()
	size := total / maxBuckets
	if size < 30000 {
		size = 30000
	}
	bs := 0
	for i := 0; i < maxBuckets; i++ {
		buckets++
		nominal := bs + size
		if i+1 == maxBuckets || nominal >= total {
			break
		}
		// key run containing record index `nominal`
		j := sort.Search(len(keys), func(j int) bool { return start[j+1] > nominal })
		end := nominal
		multi := start[j+1]-start[j] > 1
		if start[j] < nominal { // records nominal-1 and nominal share a key
			straddle++
			end = start[j+1]
		} else if multi || (j > 0 && start[j]-start[j-1] > 1) {
			aligned++
		}
		if end >= total {
			break
		}
		bs = end
	}
	return
}

func c07BatchSpan(order []string, size int) (batches, span int) {
	if size <= 0 {
		size = 100000
	}
	first := make(map[string]int, len(order))
	spanned := map[string]bool{}
	for i, k := range order {
		b := i / size
		if f, ok := first[k]; !ok {
			first[k] = b
		} else if f != b && !spanned[k] {
			spanned[k] = true
		}
	}
	return (len(order) + size - 1) / size, len(spanned)
}

type c07Runner struct {
	c      *c07Case
	text   []byte
	lines  [][]byte
	exps   map[kit.Backend]*c07Exp
	bucket [3]int
	bdone  bool
}

func (r *c07Runner) exp(b kit.Backend) *c07Exp {
	if e, ok := r.exps[b]; ok {
		return e
	}
	// the reference itself calls into the repository (line codec, derived subnet
	// tables): guarded like a compilation, a hang there is a hang of that code
	var e *c07Exp
	done := make(chan struct{})
	go func() {
		e = c07ExpectGuarded(r.lines, r.c.Serial, b, b == kit.RDBv1)
		close(done)
	}()
	start := time.Now()
	var stuckSince time.Time
	tick := time.NewTicker(500 * time.Millisecond)
	defer tick.Stop()
	for {
		select {
		case <-done:
			r.exps[b] = e
			return e
		case <-tick.C:
			if time.Since(start) < 10*time.Second {
				continue
			}
			if !c07NothingCanRun("props.c07ExpectGuarded") {
				stuckSince = time.Time{}
				continue
			}
			if stuckSince.IsZero() {
				stuckSince = time.Now()
			} else if time.Since(stuckSince) >= 15*time.Second {
				return nil
			}
		}
	}
}

func c07ExpectGuarded(lines [][]byte, serial uint32, b kit.Backend, keepOrder bool) *c07Exp {
	return c07Expect(lines, serial, b, keepOrder)
}

// c07Run executes every setting of the case; record=false while replaying.
func c07Run(t kit.Fataler, c *c07Case, record bool) {
	r := &c07Runner{c: c, text: c07Text(c), exps: map[kit.Backend]*c07Exp{}}
	r.lines = c07DataLines(r.text)
	fail := func(s c07Setting, key, format string, a ...interface{}) {
		cc := *c
		cc.Failed = s.String()
		cc.Settings = []c07Setting{s}
		cc.Detail = fmt.Sprintf(format, a...)
		kit.Fail(t, "C07", key, cc, "%s: %s", s.String(), cc.Detail)
	}
	for _, s := range c.Settings {
		b := s.backend()
		exp := r.exp(b)
		if exp == nil {
			fail(s, "compile-hang/line-codec", "converting the file line by line and marshalling the derived subnet tables (the reference the compiled database is compared with, all repository code) never returns: for 15 s every goroutine with repository code on its stack has been parked on a channel, lock or wait group")
			return
		}
		dir := kit.Scratch("c07")
		t0 := time.Now()
		path, err, hung := c07Compile(r.text, c.Serial, dir, s)
		if c07Timing {
			fmt.Fprintf(os.Stderr, "C07-TIMING %s %s lines=%d compile=%.3fs\n", c.Kind, s, len(r.lines), time.Since(t0).Seconds())
		}
		if hung && c07HangKind == "stuck" {
			fail(s, "compile-hang/"+s.mode(), "the compilation never returns: after %.0f s its goroutine is still inside the compiler and, for the last 15 s, every goroutine with repository code on its stack has been parked on a channel, lock or wait group (nothing can make progress)", time.Since(t0).Seconds())
			return
		}
		if hung {
			// the directory stays: the stuck compiler still owns it
			key := "batch-compile-deadlock"
			if s.BatchPar <= 0 {
				key = c07DeadlockKey
			}
			fail(s, key, "the batch compiler is deadlocked: its goroutine is parked in the send on the parallelism limiter (capacity %d), no goroutine is executing a batch and nothing else of the compilation can run (two goroutine dumps 5 s apart)", s.BatchPar)
			return
		}
		mode := s.mode()
		if exp.rejected >= 0 {
			if err == nil {
				_ = os.RemoveAll(dir)
				fail(s, mode+"-bad-line-accepted", "the line codec rejects data line %d (%q: %v) but the compilation reported success", exp.rejected, c07LineAt(r.lines, exp.rejected), exp.err)
				return
			}
		} else {
			if err != nil && c.BadKind == "overlong-line" {
				// failing as a whole on a line the reader cannot deliver is fine
				_ = os.RemoveAll(dir)
				continue
			}
			if err != nil {
				_ = os.RemoveAll(dir)
				fail(s, mode+"-compile-error", "every line is accepted by the line codec but the compilation failed: %v", err)
				return
			}
			got, n, derr := c07Dump(path, b)
			_ = os.RemoveAll(dir)
			if derr != nil {
				fail(s, mode+"-dump-error", "produced database cannot be read back: %v", derr)
				return
			}
			if kind, msg := c07Diff(exp, got); kind != "" {
				fail(s, mode+"-"+kind, "%s (expected %d records, database holds %d)", msg, exp.n, n)
				return
			}
			if n != exp.n {
				fail(s, mode+"-record-count", "expected %d records, database holds %d", exp.n, n)
				return
			}
		}
		_ = os.RemoveAll(dir)
		if record {
			r.book(s, exp)
		}
	}
}

func (r *c07Runner) book(s c07Setting, exp *c07Exp) {
	c := r.c
	mode := s.mode()
	kit.Class("compile:" + c.Kind + ":" + mode)
	kit.Class(fmt.Sprintf("workers:%d", s.Workers))
	kit.Class(fmt.Sprintf("gomaxprocs:%d", s.Procs))
	if mode == "batch" {
		kit.Class(fmt.Sprintf("batch-size:%d", s.BatchSize))
		kit.Class(fmt.Sprintf("batch-parallel:%d", s.BatchPar))
	}
	if mode == "builder" {
		kit.Class(fmt.Sprintf("builder-hardlinks:%v", s.Hardlinks))
	}
	if mode != "cdb" {
		kit.Class("keys:" + s.Backend)
	}
	if exp.rejected >= 0 {
		kit.Class("rejected:" + c.BadKind + ":" + mode)
		kit.NonTrivial(fmt.Sprintf("rej|%s|%s|%d/%d|%s", c.BadKind, s.tuple(), exp.rejected, len(r.lines), c07Hash(r.text)))
		return
	}
	if c.Bad != "" {
		kit.Class("bad-candidate-accepted-by-codec:" + c.BadKind)
	}
	var sh c07Shape
	for _, v := range exp.m {
		if len(v) >= 2 {
			sh.multi++
		}
		if len(v) > sh.maxVals {
			sh.maxVals = len(v)
		}
	}
	boundary := "none"
	switch mode {
	case "builder":
		if !r.bdone {
			b, st, al := c07Buckets(exp)
			r.bucket, r.bdone = [3]int{b, st, al}, true
		}
		sh.buckets, sh.straddle, sh.aligned = r.bucket[0], r.bucket[1], r.bucket[2]
		sh.parallelMode = s.Workers != 1 || sh.buckets > 1
		kit.Class(fmt.Sprintf("builder-buckets:%s", c07Bin(sh.buckets)))
		if sh.straddle > 0 {
			kit.Class("builder:key-run-straddles-nominal-bucket-boundary")
			boundary = fmt.Sprintf("straddle%d", sh.straddle)
		}
		if sh.aligned > 0 {
			kit.Class("builder:multi-value-key-ends-or-starts-at-bucket-boundary")
			boundary += fmt.Sprintf("+aligned%d", sh.aligned)
		}
	case "batch":
		var order []string // same emission order for v1 and v2
		if e := r.exp(kit.RDBv1); e != nil {
			order = e.order
		}
		sh.batches, sh.spanKeys = c07BatchSpan(order, s.BatchSize)
		sh.parallelMode = s.Workers != 1 || sh.batches > 1
		kit.Class("batches:" + c07Bin(sh.batches))
		if sh.spanKeys > 0 {
			kit.Class("batch:key-values-span-several-batches")
			boundary = "span" + c07Bin(sh.spanKeys)
		}
		if sh.batches > 1 && s.BatchPar != 1 {
			kit.Class("batch:concurrent-batches-possible")
		}
	default:
		sh.parallelMode = s.Workers != 1
	}
	kit.Class("max-values-per-key:" + c07Bin(sh.maxVals))
	nontrivial := sh.multi > 0 && sh.parallelMode
	if c.Kind == "bulk" {
		// bulk rule: a heavy key spans a bucket boundary (builder) / batch boundary (batches)
		nontrivial = nontrivial && (mode == "cdb" || sh.straddle > 0 || sh.spanKeys > 0)
	}
	if nontrivial {
		kit.NonTrivial(fmt.Sprintf("%s|%s|%s|%s", c.Kind, s.tuple(), boundary, c07Hash(r.text)))
		kit.Class("nontrivial:" + c.Kind + ":" + mode)
	}
}

func c07LineAt(lines [][]byte, i int) string {
	if i >= 0 && i < len(lines) {
		return string(lines[i])
	}
	return "(accumulator)"
}

func c07Hash(b []byte) string { return fmt.Sprintf("%016x", kit.Hash64(string(b))) }

func c07Bin(n int) string {
	switch {
	case n <= 4:
		return fmt.Sprintf("%d", n)
	case n <= 16:
		return "5-16"
	case n <= 100:
		return "17-100"
	case n <= 1000:
		return "101-1000"
	default:
		return ">1000"
	}
}

// ---------------------------------------------------------------------------
// generators

var (
	c07Workers    = []int{1, 2, 3, 8, 0}
	c07CDBWorkers = []int{1, 3, 0}
	c07BatchSizes = []int{1, 2, 3, 7, 100, 0}
	c07BatchPars  = []int{1, 2, 8, 0}
	c07Procs      = []int{1, 2, 4, 16}
)

// c07ParOK maps a drawn batch parallelism to one the campaign may use: 0 is
// kept out while the deadlock is a listed known finding.
func c07ParOK(p int) int {
	if p == 0 && kit.IsKnown("C07", c07DeadlockKey) {
		kit.Excluded(c07DeadlockKey)
		return 1
	}
	return p
}

func c07GenSetting(t *rapid.T, mode string, tag string) c07Setting {
	return c07GenSettingSizes(t, mode, tag, c07BatchSizes)
}

func c07GenSettingSizes(t *rapid.T, mode string, tag string, sizes []int) c07Setting {
	s := c07Setting{Procs: rapid.SampledFrom(c07Procs).Draw(t, tag+"procs")}
	switch mode {
	case "cdb":
		s.Backend = "cdb"
		s.Workers = rapid.SampledFrom(c07CDBWorkers).Draw(t, tag+"cdbworkers")
		return s
	case "builder":
		s.Builder = true
		s.Hardlinks = rapid.Bool().Draw(t, tag+"hardlinks")
	default:
		s.BatchSize = rapid.SampledFrom(sizes).Draw(t, tag+"bsize")
		s.BatchPar = c07ParOK(rapid.SampledFrom(c07BatchPars).Draw(t, tag+"bpar"))
	}
	s.Backend = rapid.SampledFrom([]string{"rdb-v1", "rdb-v2"}).Draw(t, tag+"keys")
	s.Workers = rapid.SampledFrom(c07Workers).Draw(t, tag+"workers")
	return s
}

// c07AllSettings enumerates the whole non-builder matrix (+ optionally the
// builder rows).
func c07AllSettings(builder bool) []c07Setting {
	var out []c07Setting
	i := 0
	procs := func() int { i++; return c07Procs[i%len(c07Procs)] }
	for _, w := range c07CDBWorkers {
		out = append(out, c07Setting{Backend: "cdb", Workers: w, Procs: procs()})
	}
	for _, be := range []string{"rdb-v1", "rdb-v2"} {
		for _, w := range c07Workers {
			for _, bs := range c07BatchSizes {
				for _, bp := range c07BatchPars {
					if bp == 0 && kit.IsKnown("C07", c07DeadlockKey) {
						continue
					}
					out = append(out, c07Setting{Backend: be, Workers: w, BatchSize: bs, BatchPar: bp, Procs: procs()})
				}
			}
			if builder {
				for _, hl := range []bool{false, true} {
					out = append(out, c07Setting{Backend: be, Workers: w, Builder: true, Hardlinks: hl, Procs: procs()})
				}
			}
		}
	}
	return out
}

// bad lines: candidates the codec is expected to reject; whether it really
// does is decided by the sequential codec run (the oracle), not assumed.
var c07BadLines = []struct{ kind, line string }{
	// (one of each kind first: rapid's sampling favours the head of a slice)
	{"loc-trailing-backslash", "+a.example.com,1.2.3.4,,,l\\"},
	{"bad-cidr", "%l1,10.0.0.0/33,m1"},
	{"unknown-type-char", "?a.example.com,1.2.3.4"},
	{"bad-svcb", "Ha.example.com,.,,,1,mandatory=alpn"},
	{"loc-bad-octal", "+a.example.com,1.2.3.4,,,\\9z"},
	{"loc-trailing-backslash", "%\\,10.0.0.0/8,m1"},
	{"bad-cidr", "%l1,300.1.1.1,m1"},
	{"unknown-type-char", "~~"},
	{"bad-cidr", "%l1,2001:db8::/129"},
	{"bad-cidr", "%l1,1.2.3.4/x,m2"},
	{"unknown-type-char", "ab.example.com,1.2.3.4"},
	// lines of one character are not data lines (the line rule skips everything
	// shorter than two bytes), whatever the character
	{"one-char-line", "Z"},
	{"one-char-line", "."},
	{"one-char-line", "x"},
	// a line beyond the scanner's 64 KiB token limit: the codec would accept it, the
	// reader cannot deliver it - the compilation may fail as a whole, but it must not
	// succeed with data missing
	{"overlong-line", "OVERLONG"},
	// accepted by the codec of the pinned tree (then the case is an ordinary
	// accepted file; whether they should be accepted is C09's subject)
	{"bad-address", "+a.example.com,not-an-ip"},
	{"bad-address", "=a.example.com,1.2.3"},
	{"bad-number", ":a.example.com,notanumber,abc"},
	{"bad-txt-escape", "'a.example.com,abc\\"},
}

// c07Amplify adds a multi-value key to a world text: n address lines for an
// owner that may already exist in the file.
func c07Amplify(t *rapid.T, w *kit.World, small bool) []string {
	var owners []string
	for _, l := range w.Lines {
		if l.K == '+' || l.K == '&' || l.K == 'Z' || l.K == '.' {
			owners = append(owners, kit.CanonName(l.Owner))
		}
	}
	owners = append(owners, "heavy.example.com")
	owner := rapid.SampledFrom(owners).Draw(t, "amp-owner")
	sizes := []int{2, 3, 7, 8, 9}
	if !small {
		sizes = []int{2, 3, 7, 9, 33, 33}
		if kit.Thorough() {
			sizes = append(sizes, 101)
		}
	}
	n := rapid.SampledFrom(sizes).Draw(t, "amp-n")
	dup := rapid.IntRange(0, 2).Draw(t, "amp-dups")
	var out []string
	for j := 0; j < n; j++ {
		v := j
		if j > 0 && j <= dup {
			v = 0
		}
		out = append(out, fmt.Sprintf("+%s,10.9.%d.%d", owner, v>>8, v&255))
	}
	return out
}

// c07GenWorldText draws a data file: a World (wide shapes), optionally an
// amplified key, comment/blank/indented lines; amplified lines are spread
// over the file by a drawn interleaving.
func c07GenWorldText(t *rapid.T, small bool) (string, uint32) {
	o := kit.GenOpts{Wide: true}
	if small {
		o.MaxLines = 14
	}
	w := kit.GenWorld(t, o)
	var lines []string
	for i := range w.Lines {
		lines = append(lines, w.Lines[i].Render())
	}
	if rapid.IntRange(0, 2).Draw(t, "amplify") != 0 {
		amp := c07Amplify(t, w, small)
		switch rapid.IntRange(0, 2).Draw(t, "amp-place") {
		case 0: // block at the end
			lines = append(lines, amp...)
		case 1: // block at the start
			lines = append(amp, lines...)
		default: // interleaved
			var out []string
			step := 1
			if len(amp) > 0 && len(lines) > len(amp) {
				step = len(lines) / len(amp)
			}
			ai := 0
			for i, l := range lines {
				if i%step == 0 && ai < len(amp) {
					out = append(out, amp[ai])
					ai++
				}
				out = append(out, l)
			}
			out = append(out, amp[ai:]...)
			lines = out
		}
	}
	// a long but valid line (well below the 64 KiB the line scanner accepts): a TXT
	// record of several thousand characters, some with a '#' where a 4096-byte
	// buffer would end
	if rapid.IntRange(0, 3).Draw(t, "longline") == 0 {
		n := rapid.SampledFrom([]int{4000, 4070, 4096, 4200, 8192, 20000, 60000}).Draw(t, "longline-len") + rapid.IntRange(0, 40).Draw(t, "longline-jitter")
		txt := []byte(strings.Repeat("abcdefghijklmnopqrstuvwxyz012345", n/32+1)[:n])
		if rapid.Bool().Draw(t, "longline-hash") {
			for _, at := range []int{4095 - 18, 4096 - 18, 4097 - 18, 8191 - 18} { // 18 = len("'long.example.com,")
				if at > 0 && at < len(txt) {
					txt[at] = '#'
				}
			}
		}
		at := rapid.IntRange(0, len(lines)).Draw(t, "longline-at")
		lines = append(lines[:at:at], append([]string{"'long.example.com," + string(txt) + ",300"}, lines[at:]...)...)
	}
	// many location maps (more than there are CPUs): one subnet each
	if rapid.IntRange(0, 5).Draw(t, "manymaps") == 0 {
		n := runtime.NumCPU() + rapid.IntRange(2, 24).Draw(t, "manymaps-n")
		for i := 0; i < n; i++ {
			lines = append(lines, fmt.Sprintf("%%l%c,10.%d.0.0/16,%c%c", 'a'+i%3, 100+i, 'A'+i/26, 'a'+i%26))
		}
	}
	if rapid.IntRange(0, 3).Draw(t, "decorate") == 0 {
		extra := rapid.SampledFrom([]string{"# comment, with: separators", "", "   ", "#", "  # indented comment"}).Draw(t, "deco")
		at := rapid.IntRange(0, len(lines)).Draw(t, "deco-at")
		lines = append(lines[:at:at], append([]string{extra}, lines[at:]...)...)
		if len(lines) > 1 && rapid.Bool().Draw(t, "indent") {
			i := rapid.IntRange(0, len(lines)-1).Draw(t, "indent-at")
			if lines[i] != "" {
				lines[i] = "  " + lines[i]
			}
		}
	}
	return strings.Join(lines, "\n") + "\n", w.Serial
}

// c07OneIn is true in roughly one of n draws (rapid's integer ranges favour
// small values, so thresholds on IntRange are avoided: the rare outcome is the
// last element of a sampled slice).
func c07OneIn(t *rapid.T, n int, tag string) bool {
	if n < 2 {
		return true
	}
	v := make([]bool, n)
	v[n-1] = true
	return rapid.SampledFrom(v).Draw(t, tag)
}

func c07GenBad(t *rapid.T, c *c07Case) {
	b := rapid.SampledFrom(c07BadLines).Draw(t, "bad")
	c.Bad, c.BadKind = b.line, b.kind
	if b.line == "OVERLONG" {
		c.Bad = "'long.example.com," + strings.Repeat("x", 70000)
	}
	n := bytes.Count([]byte(c.Text), []byte("\n"))
	if c.Kind == "bulk" {
		n = c.Bulk.Lines + len(c.Bulk.Subnets)
	}
	switch rapid.IntRange(0, 3).Draw(t, "bad-where") {
	case 0:
		c.BadAt = 0
	case 1:
		c.BadAt = n
	default:
		c.BadAt = rapid.IntRange(0, n).Draw(t, "bad-at")
	}
}

// c07GenWorldCase: one small file x nBatch batch settings + one CDB setting
// (+ nBuilder builder settings).
func c07GenWorldCase(t *rapid.T, nBatch, nBuilder int, pBad int) *c07Case {
	c := &c07Case{Kind: "world"}
	// Cost control (every batch zeroes 9.6 MB): two files in three are short
	// (<= 14 record lines, amplified key <= 9 values) and meet every batch size;
	// the longer ones (<= 40 lines, amplified key up to 33/101 values) meet the
	// sizes >= 7 - in thorough one longer file in four meets all sizes as well.
	small := rapid.SampledFrom([]bool{true, true, false}).Draw(t, "small-file")
	sizes := c07BatchSizes
	if !small && !(kit.Thorough() && c07OneIn(t, 4, "long-file-all-sizes")) {
		sizes = []int{7, 100, 0}
	}
	c.Text, c.Serial = c07GenWorldText(t, small)
	c.NoEOL = rapid.IntRange(0, 7).Draw(t, "no-eol") == 0
	if pBad > 0 && c07OneIn(t, 100/pBad, "with-bad") {
		c07GenBad(t, c)
	}
	c.Settings = append(c.Settings, c07GenSetting(t, "cdb", "s-cdb-"))
	for i := 0; i < nBatch; i++ {
		c.Settings = append(c.Settings, c07GenSettingSizes(t, "batch", fmt.Sprintf("s%d-", i), sizes))
	}
	for i := 0; i < nBuilder; i++ {
		c.Settings = append(c.Settings, c07GenSetting(t, "builder", fmt.Sprintf("b%d-", i)))
	}
	return c
}

var c07SubnetPool = []string{
	"%l1,10.0.0.0/8,m1", "%l2,10.1.0.0/16,m1", "%l1,192.0.2.0/24,m1", "%l2,2001:db8::/32,m1", "%l1,0.0.0.0/0,m1", "%l1,::/0,m1",
	"%l2,10.0.0.0/8", "%l1,198.51.100.7", "%l2,2001:db8:1::/48,m2", "%l1,203.0.113.0/25,m2",
}

// c07GenBulk draws a bulk file.  Heavy keys are positioned from the sorted
// expectation: P = number of records that sort before the name space (the
// range points the codec derives from the drawn '%' lines), bucket size as the
// bulk loader computes it; for every nominal bucket boundary a heavy key is
// started d records before it (0 < d < count: the boundary falls inside the
// key's run; d = 0 or d = count: the run meets the boundary exactly).
func c07GenBulk(t *rapid.T, huge bool) *c07Case {
	b := &c07Bulk{}
	c := &c07Case{Kind: "bulk", Bulk: b, Serial: 1700000000}
	nsub := rapid.IntRange(0, 6).Draw(t, "nsub")
	seen := map[string]bool{}
	for i := 0; i < nsub; i++ {
		s := rapid.SampledFrom(c07SubnetPool).Draw(t, "subnet")
		if !seen[s] {
			seen[s] = true
			b.Subnets = append(b.Subnets, s)
		}
	}
	b.SubnetsLast = rapid.Bool().Draw(t, "subnets-last")
	var sl [][]byte
	for _, s := range b.Subnets {
		sl = append(sl, []byte(s))
	}
	pre := c07Expect(sl, c.Serial, kit.RDBv1, false)
	P := pre.n - 1 // all but the feature record sort before the name space
	// (rapid's integer ranges favour their lower end: the size is drawn from a
	// spread of bases plus a jitter)
	if huge {
		b.Lines = 30000*runtime.NumCPU() + rapid.SampledFrom([]int{1000, 20000, 50000, 90000}).Draw(t, "lines-base") + rapid.IntRange(0, 999).Draw(t, "lines-jitter")
	} else {
		b.Lines = rapid.SampledFrom([]int{30600, 31000, 45000, 60100, 75000, 90500, 100400, 119000}).Draw(t, "lines-base") + rapid.IntRange(0, 999).Draw(t, "lines-jitter")
	}
	total := P + b.Lines + 1
	size := total / runtime.NumCPU()
	if size < 30000 {
		size = 30000
	}
	counts := []int{2, 2, 3, 5, 17, 100, 499, 500}
	prevEnd := 0 // absolute sorted index where the current bucket starts
	used := 0    // '+' records below this index are taken
	for {
		nominal := prevEnd + size
		if nominal >= total-2 {
			break
		}
		if rapid.IntRange(0, 7).Draw(t, "skip-boundary") == 0 {
			prevEnd = nominal
			continue
		}
		cnt := rapid.SampledFrom(counts).Draw(t, "heavy-count")
		if rapid.IntRange(0, 3).Draw(t, "heavy-anycount") == 0 {
			cnt = rapid.IntRange(2, 500).Draw(t, "heavy-count-any")
		}
		d := rapid.IntRange(0, cnt).Draw(t, "heavy-d")
		pos := nominal - d - P
		if pos < used || pos+cnt > b.Lines {
			prevEnd = nominal
			continue
		}
		b.Heavy = append(b.Heavy, c07Heavy{Pos: pos, Count: cnt, Dups: rapid.IntRange(0, cnt/2).Draw(t, "heavy-dups")})
		used = pos + cnt
		if d > 0 && d < cnt {
			prevEnd = P + pos + cnt
		} else {
			prevEnd = nominal
		}
	}
	// a few more heavy keys anywhere (they meet batch boundaries), and one at
	// the default batch boundary of 100000 records when the file is that long
	nx := rapid.IntRange(0, 6).Draw(t, "extra-heavy")
	for i := 0; i < nx; i++ {
		cnt := rapid.SampledFrom(counts).Draw(t, "xheavy-count")
		pos := rapid.IntRange(0, b.Lines-cnt).Draw(t, "xheavy-pos")
		if i == 0 && b.Lines > 100300 {
			pos = 100000 - rapid.IntRange(0, cnt).Draw(t, "xheavy-d")
		}
		ok := true
		for _, h := range b.Heavy {
			if pos < h.Pos+h.Count && h.Pos < pos+cnt {
				ok = false
			}
		}
		if ok {
			b.Heavy = append(b.Heavy, c07Heavy{Pos: pos, Count: cnt, Dups: rapid.IntRange(0, 1).Draw(t, "xheavy-dups")})
		}
	}
	sort.Slice(b.Heavy, func(i, j int) bool { return b.Heavy[i].Pos < b.Heavy[j].Pos })
	b.Order = rapid.SampledFrom([]string{"sorted", "stride", "stride", "reversed"}).Draw(t, "order")
	if b.Order == "stride" {
		b.Stride = rapid.SampledFrom([]int{7919, 104729, 15485863, 2, 30011}).Draw(t, "stride")
	}
	b.PairEvery = rapid.SampledFrom([]int{0, 2, 3, 10, 100}).Draw(t, "pair-every")
	return c
}

func c07BulkSettings(t *rapid.T, nBuilder, nBatch int) []c07Setting {
	var out []c07Setting
	out = append(out, c07GenSetting(t, "cdb", "s-cdb-"))
	for i := 0; i < nBuilder; i++ {
		s := c07GenSetting(t, "builder", fmt.Sprintf("b%d-", i))
		if nBuilder >= 2 { // cover both key syntaxes and both hardlink modes
			s.Backend = []string{"rdb-v1", "rdb-v2"}[i%2]
			s.Hardlinks = i%2 == 0 != (i/2%2 == 1)
		}
		out = append(out, s)
	}
	for i := 0; i < nBatch; i++ {
		s := c07GenSetting(t, "batch", fmt.Sprintf("s%d-", i))
		// bulk files use the larger sizes of the matrix plus sizes around the
		// bucket size
		s.BatchSize = rapid.SampledFrom(c07BulkBatchSizes()).Draw(t, fmt.Sprintf("s%d-bulk-bsize", i))
		if i == 0 { // at least one compilation whose batches hold tens of thousands of keys
			s.BatchSize = rapid.SampledFrom([]int{29999, 0, 9000, 17000}).Draw(t, "s0-bulk-bsize-large")
		}
		out = append(out, s)
	}
	return out
}

// every batch allocates two 100000-slot lists (9.6 MB): sizes below 100 would
// mean > 10^4 batches and > 100 GB of allocation per bulk compile
func c07BulkBatchSizes() []int {
	return []int{100, 0, 0, 29999, 1000}
}

// ---------------------------------------------------------------------------
// the dedicated sub-case of the known finding

// c07DeadlockCase: three records, BatchSize 2, BatchNumParallel 0 (the CLI
// default, documented as "unlimited").
func c07DeadlockCase() c07Case {
	return c07Case{Kind: "deadlock", Text: "+a.example.com,1.2.3.4\n+a.example.com,1.2.3.5\n+b.example.com,1.2.3.6\n", Serial: 1,
		Settings: []c07Setting{{Backend: "rdb-v1", Workers: 1, BatchSize: 2, BatchPar: 0, Procs: 4}}}
}

// c07Deadlock runs the case's single setting; (hung, err).
func c07Deadlock(c *c07Case) (bool, error) {
	dir := kit.Scratch("c07-par0")
	_, err, hung := c07Compile([]byte(c.Text), c.Serial, dir, c.Settings[0])
	if !hung {
		_ = os.RemoveAll(dir)
	}
	return hung, err
}

// ---------------------------------------------------------------------------

func TestC07(t *testing.T) {
	if f := kit.ReplayFile(); f != "" {
		var c c07Case
		kit.LoadReplay(t, f, &c)
		kit.Case(c)
		if c.Kind == "deadlock" {
			if hung, err := c07Deadlock(&c); hung {
				kit.Fail(t, "C07", c07DeadlockKey, c, "compilation with BatchNumParallel=0 and more records than BatchSize never returns (structural deadlock seen in two goroutine dumps 5 s apart)")
			} else if err != nil {
				kit.Fail(t, "C07", "batch-compile-error", c, "compilation failed: %v", err)
			}
		} else {
			c07Run(t, &c, false)
		}
		kit.Eval()
		return
	}
	shard, nsh := kit.Shard(), kit.NShards()
	phaseStart := time.Now()
	phase := func(name string) {
		t.Logf("C07 phase %s: %.1fs", name, time.Since(phaseStart).Seconds())
		phaseStart = time.Now()
	}

	run := func(t *rapid.T, c *c07Case) {
		kit.Case(c)
		c07Run(t, c, true)
		if c.Kind == "world" {
			kit.Sample(c)
		} else {
			cc := *c
			kit.SampleForce(cc)
		}
	}

	// (1) small files x drawn batch/CDB settings; a fifth carries a bad line
	// (cost: every batch allocates and zeroes two 100000-slot lists = 9.6 MB, the
	// bulk loader 960 MB; with 16 shards side by side these first-touch page
	// faults dominate the run time, so the budgets are counted in compilations)
	kit.SetRapid(kit.N(240, 1500))
	rapid.Check(t, kit.Prop("C07", func(t *rapid.T) {
		run(t, c07GenWorldCase(t, kit.Pick(4, 5), 0, 20))
	}))

	phase("small-batch")
	// (2) small files through the bulk loader (1.3 s each: few in quick)
	kit.SetRapid(kit.N(16, 100))
	rapid.Check(t, kit.Prop("C07", func(t *rapid.T) {
		run(t, c07GenWorldCase(t, 1, 1, 25))
	}))

	phase("small-builder")
	// (3) one small file through the complete settings matrix (builder rows in
	// thorough only); quick: on one shard that has no bulk file
	if kit.Thorough() || shard == 2%nsh {
		kit.SetRapid(1)
		rapid.Check(t, kit.Prop("C07", func(t *rapid.T) {
			c := c07GenWorldCase(t, 0, 0, 0)
			for len(c07DataLines([]byte(c.Text))) > 24 { // keep the 183-row pass cheap
				c = c07GenWorldCase(t, 0, 0, 0)
			}
			c.Settings = c07AllSettings(kit.Thorough() && shard%8 == 1)
			kit.Class("full-settings-matrix")
			run(t, c)
		}))
	}

	phase("matrix")
	// (4) bulk files: quick 2 per run in total (shards 0 and 1), thorough 2 per
	// shard; thorough additionally one file per eight shards that fills every
	// bucket the loader can create (>= 30000 x NumCPU records)
	nBulk := 0
	if kit.Thorough() {
		nBulk = 2
	} else if shard < 2 {
		nBulk = 1
	}
	if nBulk > 0 {
		kit.SetRapid(nBulk)
		rapid.Check(t, kit.Prop("C07", func(t *rapid.T) {
			c := c07GenBulk(t, false)
			if kit.Thorough() {
				c.Settings = c07BulkSettings(t, 2, 4)
				if rapid.IntRange(0, 3).Draw(t, "bulk-bad") == 0 {
					c07GenBad(t, c)
				}
			} else {
				c.Settings = c07BulkSettings(t, 1, 2)
			}
			run(t, c)
		}))
	}
	if kit.Thorough() && shard%8 == 3 {
		kit.SetRapid(1)
		rapid.Check(t, kit.Prop("C07", func(t *rapid.T) {
			c := c07GenBulk(t, true)
			c.Settings = c07BulkSettings(t, 2, 1)
			if n := len(c.Settings) - 1; c.Settings[n].BatchSize == 100 {
				c.Settings[n].BatchSize = 1000
			}
			kit.Class("bulk-all-buckets")
			run(t, c)
		}))
	}

	phase("bulk")
	// (5) known finding, dedicated sub-case, last (its goroutines leak)
	if kit.IsKnown("C07", c07DeadlockKey) && shard == nsh-1 {
		c := c07DeadlockCase()
		kit.Case(c)
		hung, err := c07Deadlock(&c)
		kit.Eval()
		switch {
		case hung:
			kit.KnownSeen("C07", c07DeadlockKey)
			kit.Class("known:" + c07DeadlockKey + ":reproduced")
		case err != nil:
			kit.Fail(t, "C07", "batch-compile-error", c, "compilation failed: %v", err)
		default:
			kit.Note("known finding %s was NOT reproduced: the compilation returned; drop it from known_findings.json", c07DeadlockKey)
		}
	}
}
