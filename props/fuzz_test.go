package props

import (
	"encoding/hex"
	"testing"

	"github.com/miekg/dns"

	"verif/kit"
)

// Native coverage-guided fuzz targets, used by the thorough tier only (the
// driver runs them with -test.fuzz for a bounded time).  The semantic oracle is
// inside the target: the same checks as the rapid-driven properties.

// fuzzFataler turns kit.Fail into a plain test failure (the failure file is
// written by kit.Fail before this is called).
type fuzzFataler struct{ t *testing.T }

func (f fuzzFataler) Fatalf(format string, a ...interface{}) { f.t.Fatalf(format, a...) }

// FuzzC13: raw bytes -> dns.Msg.Unpack (discard on error) -> every database.
func FuzzC13(f *testing.F) {
	c13Once.Do(c13Setup)
	if c13Err != nil {
		f.Fatalf("setup: %v", c13Err)
	}
	for _, m := range c13SeedMsgs() {
		if b, err := m.Pack(); err == nil {
			f.Add(b, uint8(0))
		}
	}
	// hostile constants: header only, truncated question, compression loop, huge counts
	for _, h := range []string{
		"abcd01000000000000000000",
		"abcd0100000100000000000003777777076578616d706c6503636f6d0000010001",
		"abcd01000001000000000000c00c00010001",
		"abcd0100ffffffffffffffff00",
		"abcd010000010000000000010000290200000080000000",
		"abcd0100000100000000000100002910000000000000080008000400180a0102",
	} {
		if b, err := hex.DecodeString(h); err == nil {
			f.Add(b, uint8(1))
		}
	}
	f.Fuzz(func(t *testing.T, wire []byte, sel uint8) {
		req := new(dns.Msg)
		if err := req.Unpack(wire); err != nil || len(req.Question) == 0 {
			return
		}
		// re-pack so that the case stored in a failure file is what the handler saw
		canon, err := req.Pack()
		if err != nil {
			return
		}
		d := c13DBs[int(sel)%len(c13DBs)]
		c13Check(fuzzFataler{t}, d, canon, "10.1.2.3", sel&0x80 != 0, false)
		kit.Eval()
	})
}

// FuzzC17: byte strings -> quoting round trip and field read-back.
func FuzzC17(f *testing.F) {
	for _, s := range []string{"", "a", ",", ":", "\\", "\"", "\x00", "\xff", "\xc2\xa0", "\\054", "a,b:c\\d\"e\n", " lead", "trail ", "\xef\xbf\xbd", "\xed\xa0\x80"} {
		f.Add([]byte(s))
	}
	f.Fuzz(func(t *testing.T, s []byte) {
		if len(s) > 2000 {
			return
		}
		c17One(fuzzFataler{t}, s, true)
		kit.Eval()
	})
}
