package props

import (
	"bytes"
	"fmt"
	"net"
	"os"
	"sort"
	"strings"
	"testing"

	"github.com/facebookincubator/dns/dnsrocks/db"
	"github.com/facebookincubator/dns/dnsrocks/dnsdata"
	"github.com/miekg/dns"
	"pgregory.net/rapid"

	"verif/kit"
)

// C03: client-to-location mapping is longest-prefix match over the declared
// subnets of the same family; exact-name map before nearest wildcard map.

type c03Case struct {
	Layer   string           `json:"layer"`
	Subnets []kit.SubnetSpec `json:"subnets"`
	Maps    []kit.Line       `json:"maps,omitempty"`
	Client  kit.LPMClient    `json:"client"`
	QName   string           `json:"qname,omitempty"`
	ECS     bool             `json:"ecs,omitempty"`
	Config  string           `json:"config,omitempty"`
	Want    string           `json:"want"`
	Got     string           `json:"got"`
}

func subnetStructs(specs []kit.SubnetSpec) []kit.Subnet {
	var out []kit.Subnet
	for _, s := range specs {
		ip, n, v4, ok := kit.ParseSubnet(s.CIDR)
		if !ok {
			continue
		}
		var lo, m [2]byte
		copy(lo[:], s.Loc)
		copy(m[:], s.Map)
		out = append(out, kit.Subnet{MapID: m, IP: ip, Len: n, V4: v4, Loc: lo})
	}
	return out
}

func c03Opts() kit.SubnetGenOpts {
	return kit.SubnetGenOpts{
		NoZeroNetNonDefault: kit.IsKnown("C03", "zero-network-subnet-treated-as-default"),
		NoShortV6Zero:       kit.IsKnown("C03", "v6-subnet-covering-v4-mapped-range"),
	}
}

// c03Pure checks the Rearranger as a pure function against brute-force LPM.
func c03Pure(t kit.Fataler, specs []kit.SubnetSpec, clients []kit.LPMClient, record bool) {
	r := dnsdata.NewRearranger(len(specs))
	subs := subnetStructs(specs)
	for _, s := range subs {
		ipn := &net.IPNet{IP: s.IP, Mask: net.CIDRMask(s.Len, 128)}
		if err := r.AddLocation(ipn, s.Loc[:]); err != nil {
			kit.Fail(t, "C03", "rearranger-rejects-subnet", c03Case{Layer: "pure", Subnets: specs}, "AddLocation(%v): %v", ipn, err)
		}
	}
	pts := r.Rearrange()
	// the stored key order: (ip, mask byte) where the mask byte is 0 for "no location"
	type pt struct {
		key  []byte
		loc  []byte
		null bool
		mlen uint8
	}
	var ps []pt
	for _, p := range pts {
		ip := p.To16()
		m := p.MaskLen()
		if p.LocIsNull() {
			m = 0
		}
		k := append(append([]byte{}, ip[:]...), m)
		ps = append(ps, pt{k, append([]byte{}, p.LocID()...), p.LocIsNull(), p.MaskLen()})
	}
	sort.SliceStable(ps, func(i, j int) bool { return bytes.Compare(ps[i].key, ps[j].key) < 0 })
	for _, c := range clients {
		cip, clen, v4 := c.To128()
		want, wantLen, ok := kit.LPM(subs, [2]byte{}, cip, clen, v4)
		key := append(append([]byte{}, cip...), byte(clen))
		idx := sort.Search(len(ps), func(i int) bool { return bytes.Compare(ps[i].key, key) > 0 }) - 1
		gotLoc, gotLen, gotOK := [2]byte{}, 0, false
		if idx >= 0 && !ps[idx].null {
			copy(gotLoc[:], ps[idx].loc)
			gotLen, gotOK = int(ps[idx].mlen), true
		}
		if record {
			c03Classify("pure", subs, cip, clen, v4, ok, wantLen)
		}
		if ok != gotOK || (ok && (want != gotLoc || wantLen != gotLen)) {
			kit.Fail(t, "C03", c03Shape("pure", subs, cip, clen, v4, ok, gotOK), c03Case{Layer: "pure", Subnets: specs, Client: c,
				Want: fmt.Sprintf("%q/%d found=%v", want[:], wantLen, ok), Got: fmt.Sprintf("%q/%d found=%v", gotLoc[:], gotLen, gotOK)},
				"rearranger: client %s/%d (family %d): longest-prefix match says %q/%d (found=%v), range points say %q/%d (found=%v); subnets %v", c.Addr, c.Len, c.Family, want[:], wantLen, ok, gotLoc[:], gotLen, gotOK, specs)
		}
	}
}

// c03Shape classifies a mismatch by the shape that is involved, so that known
// findings can be told apart from new ones.
func c03Shape(layer string, subs []kit.Subnet, cip net.IP, clen int, v4, wantOK, gotOK bool) string {
	zeroNet := false
	v6CoversV4 := false
	v6Default := false
	for _, s := range subs {
		z6 := s.IP.Equal(net.ParseIP("::")) && s.Len > 0
		z4 := s.IP.Equal(net.ParseIP("::ffff:0.0.0.0")) && s.Len > 96
		if z6 || z4 {
			zeroNet = true
		}
		if !s.V4 && s.Len == 0 {
			v6Default = true
		}
		if !s.V4 && s.Len > 0 && s.Len <= 96 && bytes.Equal(kit.MaskIP16(net.ParseIP("::ffff:0.0.0.0"), s.Len), s.IP) {
			v6CoversV4 = true
		}
	}
	switch {
	case v6CoversV4:
		return "v6-subnet-covering-v4-mapped-range"
	case v4 && v6Default && (layer == "cdb" || layer == "cdb-separate"):
		return "cdb-v4-client-matches-v6-default"
	case zeroNet:
		return "zero-network-subnet-treated-as-default"
	}
	return "lpm-mismatch/" + layer
}

func c03Classify(layer string, subs []kit.Subnet, cip net.IP, clen int, v4, ok bool, wantLen int) {
	covering := 0
	sameNet := false
	boundary := false
	for _, s := range subs {
		if s.MapID != [2]byte{} || s.V4 != v4 {
			continue
		}
		if s.Len <= clen && bytes.Equal(kit.MaskIP16(cip, s.Len), s.IP) {
			covering++
			if s.Len != wantLen && bytes.Equal(s.IP, kit.MaskIP16(cip, wantLen)) {
				sameNet = true
			}
		}
		first := s.IP
		if bytes.Equal(first, cip) {
			boundary = true
		}
	}
	cls := fmt.Sprintf("%s:cover%d", layer, min3(covering))
	kit.Class(cls)
	fam := 6
	if v4 {
		fam = 4
	}
	if covering >= 2 || boundary || sameNet {
		kit.NonTrivial(fmt.Sprintf("%s|%d|%d|%v|%v|%x/%d|%d", layer, fam, covering, boundary, sameNet, []byte(cip), clen, len(subs)))
	}
}

func min3(n int) int {
	if n > 3 {
		return 3
	}
	return n
}

// ---- compiled layer ---------------------------------------------------------

type c03Compiled struct {
	Specs []kit.SubnetSpec
	Maps  []kit.Line
}

func (c *c03Compiled) world() *kit.World {
	w := &kit.World{Serial: 1}
	for _, m := range c.Maps {
		w.Lines = append(w.Lines, m)
	}
	for _, s := range c.Specs {
		w.Lines = append(w.Lines, kit.Line{K: '%', Loc: s.Loc, CIDR: s.CIDR, MapID: s.Map, TTL: -1})
	}
	// one record so the database is not empty of names
	w.Lines = append(w.Lines, kit.Line{K: '.', Owner: "a.com", X: "a", TTL: -1, N: none5})
	return w
}

type c03Probe struct {
	QName  string
	ECS    bool
	Client kit.LPMClient
}

func c03RunCompiled(t kit.Fataler, cc *c03Compiled, probes []c03Probe, record bool) {
	w := cc.world()
	text := w.Text()
	dir := kit.Scratch("c03")
	defer os.RemoveAll(dir)
	maps, nets := w.Maps(), w.Subnets()
	type cfg struct {
		name     string
		backend  kit.Backend
		separate bool
	}
	cfgs := []cfg{{"cdb", kit.CDB, false}, {"cdb-separate", kit.CDB, true}, {"rdb-v1", kit.RDBv1, false}, {"rdb-v2", kit.RDBv2, false}}
	paths := map[kit.Backend]string{}
	for _, b := range kit.AllBackends {
		p, err := kit.Compile(text, 1, dir, b, kit.DefaultCompile)
		if err != nil {
			kit.Fail(t, "C03", "compile-error", c03Case{Layer: b.String(), Subnets: cc.Specs, Maps: cc.Maps}, "compile: %v\n%s", err, text)
		}
		paths[b] = p
	}
	saved := db.SeparateBitMap
	defer func() { db.SeparateBitMap = saved }()
	for _, cf := range cfgs {
		d, err := db.Open(paths[cf.backend], cf.backend.Driver())
		if err != nil {
			kit.Fail(t, "C03", "open-error", c03Case{Layer: cf.name, Subnets: cc.Specs, Maps: cc.Maps}, "open: %v", err)
		}
		db.SeparateBitMap = cf.separate
		layer := "rdb"
		if cf.backend == kit.CDB {
			layer = "cdb"
			if cf.separate {
				layer = "cdb-separate"
			}
		}
		for _, pr := range probes {
			rd, err := db.NewReader(d)
			if err != nil {
				kit.Fail(t, "C03", "reader-error", c03Case{Layer: cf.name}, "reader: %v", err)
			}
			qn := kit.NameWire(kit.CanonName(pr.QName))
			kind := byte('M')
			if pr.ECS {
				kind = '8'
			}
			mid, _ := kit.MapFor(maps, kind, pr.QName)
			cip, clen, v4 := pr.Client.To128()
			wantLoc, wantLen, ok := kit.LPM(nets, mid, cip, clen, v4)
			var got *db.Location
			var gerr error
			var scope uint8
			if pr.ECS {
				e := &dns.EDNS0_SUBNET{Code: dns.EDNS0SUBNET, Family: uint16(pr.Client.Family), SourceNetmask: uint8(pr.Client.Len)}
				ip := net.ParseIP(pr.Client.Addr)
				if pr.Client.Family == 1 {
					e.Address = ip.To4()
				} else {
					e.Address = ip.To16()
				}
				got, gerr = rd.EcsLocation(qn, e)
				scope = e.SourceScope
			} else {
				got, gerr = rd.ResolverLocation(qn, pr.Client.Addr)
			}
			rd.Close()
			want := fmt.Sprintf("map=%q loc=%q found=%v len=%d", mid[:], wantLoc[:], ok, wantLen)
			cs := c03Case{Layer: cf.name, Subnets: cc.Specs, Maps: cc.Maps, Client: pr.Client, QName: pr.QName, ECS: pr.ECS, Config: cf.name, Want: want}
			fail := func(key, format string, a ...interface{}) {
				cs.Got = fmt.Sprintf("%+v err=%v scope=%d", got, gerr, scope)
				kit.Fail(t, "C03", key, cs, "%s %s: "+format+"\nwant %s got %s\ndata:\n%s", append([]interface{}{cf.name, pr.QName}, append(a, want, cs.Got, text)...)...)
			}
			if gerr != nil {
				fail("lookup-error/"+layer, "location lookup failed for client %v: %v", pr.Client, gerr)
			}
			shape := c03Shape(layer, filterMap(nets, mid), cip, clen, v4, ok, got != nil)
			if pr.ECS {
				// EcsLocation: nil when the name has no ECS map or no located subnet matches
				if mid == [2]byte{} || !ok || wantLoc == [2]byte{} {
					if got != nil {
						fail(shape, "ECS client %v: expected no location", pr.Client)
					}
				} else {
					if got == nil || got.LocID != wantLoc || got.MapID != mid || int(got.Mask) != wantLen {
						fail(shape, "ECS client %v: wrong location", pr.Client)
					}
					wantScope := wantLen
					if pr.Client.Family == 1 {
						wantScope -= 96
					}
					if int(scope) != wantScope {
						fail("ecs-scope/"+layer, "ECS client %v: scope %d, want %d", pr.Client, scope, wantScope)
					}
				}
			} else {
				if got == nil {
					fail("nil-location/"+layer, "resolver %v: nil location", pr.Client)
				}
				if got.MapID != mid {
					fail("map-selection/"+layer, "resolver %v: map %q, want %q", pr.Client, got.MapID[:], mid[:])
				}
				if !ok || wantLoc == [2]byte{} {
					if got.LocID != [2]byte{} {
						fail(shape, "resolver %v: expected no location", pr.Client)
					}
				} else if got.LocID != wantLoc || int(got.Mask) != wantLen {
					fail(shape, "resolver %v: wrong location/mask", pr.Client)
				}
			}
			if record {
				c03Classify(layer, filterMapZero(nets, mid), cip, clen, v4, ok, wantLen)
				kit.Class("mapsel:" + c03MapClass(maps, kind, pr.QName))
			}
		}
		d.Destroy()
	}
}

func filterMap(nets []kit.Subnet, m [2]byte) []kit.Subnet {
	var out []kit.Subnet
	for _, s := range nets {
		if s.MapID == m {
			out = append(out, s)
		}
	}
	return out
}

// filterMapZero re-labels the subnets of map m as map zero (c03Classify looks at map zero).
func filterMapZero(nets []kit.Subnet, m [2]byte) []kit.Subnet {
	out := filterMap(nets, m)
	for i := range out {
		out[i].MapID = [2]byte{}
	}
	return out
}

func c03MapClass(maps []kit.MapDecl, kind byte, name string) string {
	n := kit.CanonName(name)
	for _, m := range maps {
		if m.Kind == kind && !m.Wild && m.Name == n {
			return "exact"
		}
	}
	if _, ok := kit.MapFor(maps, kind, name); ok {
		return "wildcard"
	}
	return "none"
}

func genC03Compiled(t *rapid.T) (*c03Compiled, []c03Probe) {
	mapIDs := []string{"", "m1", "m2", "\x00\x07"}
	cc := &c03Compiled{Specs: kit.GenSubnets(t, mapIDs, c03Opts())}
	names := []string{"a.com", "b.a.com", "c.b.a.com", "www.a.com", "com", "x.org", "a.b.a.com", "ab.a.com"}
	used := map[string]bool{}
	nm := rapid.IntRange(0, 6).Draw(t, "nmaps")
	for i := 0; i < nm; i++ {
		kind := rapid.SampledFrom([]byte{'M', '8'}).Draw(t, "mapkind")
		name := rapid.SampledFrom(names).Draw(t, "mapname")
		wild := rapid.Bool().Draw(t, "mapwild")
		if rapid.IntRange(0, 11).Draw(t, "rootmap") == 0 {
			name, wild = "", true
		}
		k := fmt.Sprintf("%c%s%v", kind, name, wild)
		if used[k] {
			continue
		}
		used[k] = true
		if name != "" && rapid.IntRange(0, 3).Draw(t, "mapcase") == 0 {
			name = strings.ToUpper(name[:1]) + name[1:] // map declarations are case-insensitive like every name
			if len(name) > 3 {
				name = name[:len(name)-2] + strings.ToUpper(name[len(name)-2:])
			}
		}
		cc.Maps = append(cc.Maps, kit.Line{K: kind, Owner: name, Wild: wild, MapID: rapid.SampledFrom(mapIDs[1:]).Draw(t, "mapid"), TTL: -1})
	}
	np := rapid.IntRange(8, 30).Draw(t, "nprobes")
	var probes []c03Probe
	qnames := append([]string{"zz.a.com", "a.b.c.b.a.com", "", "org", "b.com", "l1.l2.l3.l4.l5.l6.l7.l8.l9.l10.b.a.com", "0.1.2.3.4.5.6.7.8.9.a.b.c.d.e.f.0.1.2.3.4.5.6.7.8.9.a.b.c.d.x.org"}, names...)
	for i := 0; i < np; i++ {
		ecs := rapid.Bool().Draw(t, "ecs")
		qn := rapid.SampledFrom(qnames).Draw(t, "qname")
		if len(cc.Maps) > 0 && rapid.Bool().Draw(t, "atmap") {
			m := rapid.SampledFrom(cc.Maps).Draw(t, "atmapname")
			qn = m.Owner
			if m.Wild && rapid.Bool().Draw(t, "belowmap") {
				qn = strings.Trim("x-1."+qn, ".")
			}
		}
		kind := byte('M')
		if ecs {
			kind = '8'
		}
		w := cc.world()
		mid, _ := kit.MapFor(w.Maps(), kind, qn)
		var rel []kit.SubnetSpec
		for _, s := range cc.Specs {
			var m [2]byte
			copy(m[:], s.Map)
			if m == mid {
				rel = append(rel, s)
			}
		}
		probes = append(probes, c03Probe{QName: qn, ECS: ecs, Client: kit.GenLPMClient(t, rel, ecs)})
	}
	return cc, probes
}

func TestC03(t *testing.T) {
	if f := kit.ReplayFile(); f != "" {
		var c c03Case
		kit.LoadReplay(t, f, &c)
		if c.Layer == "pure" {
			c03Pure(t, c.Subnets, []kit.LPMClient{c.Client}, false)
		} else {
			c03RunCompiled(t, &c03Compiled{Specs: c.Subnets, Maps: c.Maps}, []c03Probe{{c.QName, c.ECS, c.Client}}, false)
		}
		kit.Eval()
		return
	}
	opts := c03Opts()
	if opts.NoShortV6Zero && kit.Shard() == 0 {
		// the listed known finding: exercised on its own so that it is reported
		// (KNOWN-FINDING) while it still fails and noticed when it stops failing
		rec := &recorder{}
		if rec.try(func() {
			c03Pure(rec, []kit.SubnetSpec{{CIDR: "::/1", Loc: "l2"}, {CIDR: "::/0", Loc: "l1"}}, []kit.LPMClient{{Addr: "8000::", Family: 2, Len: 128}}, false)
		}) {
			kit.ClearFailure("C03")
			kit.KnownSeen("C03", "v6-subnet-covering-v4-mapped-range")
		} else {
			kit.Note("known finding C03/v6-subnet-covering-v4-mapped-range no longer reproduces")
		}
	}
	// (a) the rearranger as a pure function
	kit.SetRapid(kit.N(40000, 1000000))
	rapid.Check(t, kit.Prop("C03", func(t *rapid.T) {
		specs := kit.GenSubnets(t, []string{""}, opts)
		n := rapid.IntRange(1, 12).Draw(t, "nclients")
		clients := make([]kit.LPMClient, n)
		for i := range clients {
			clients[i] = kit.GenLPMClient(t, specs, true)
		}
		kit.Case(c03Case{Layer: "pure", Subnets: specs})
		c03Pure(t, specs, clients, true)
		kit.Sample(map[string]interface{}{"layer": "pure", "subnets": specs, "clients": clients})
	}))
	// (b) compiled databases through the Reader API
	kit.SetRapid(kit.N(400, 5000))
	rapid.Check(t, kit.Prop("C03", func(t *rapid.T) {
		cc, probes := genC03Compiled(t)
		kit.Case(c03Case{Layer: "compiled", Subnets: cc.Specs, Maps: cc.Maps})
		c03RunCompiled(t, cc, probes, true)
		kit.Sample(map[string]interface{}{"layer": "compiled", "data": string(cc.world().Text()), "probe": probes[0]})
	}))
}
