package kit

import (
	"bytes"
	"fmt"
	"os"
	"os/exec"
	"path/filepath"
	"strconv"
	"strings"

	"github.com/facebookincubator/dns/dnsrocks/dnsdata/rdb"
	"github.com/miekg/dns"
)

// Generation-stamped databases: the same names in every generation, with the
// generation number written into every rdata a query can return, so that each
// RR of a response names the generation it was computed from (C05, C12, C14).

// StampLines returns the data lines of generation g (no map / subnet lines).
func StampLines(g int) []string {
	hi, lo := g>>8&0xff, g&0xff
	ip := func(last int) string { return fmt.Sprintf("10.%d.%d.%d", hi, lo, last) }
	return []string{
		fmt.Sprintf("Zexample.com,ns%d.example.com,hostmaster.example.com,%d,7200,1800,604800,120,60", g, g),
		fmt.Sprintf("&example.com,,ns%d.example.com,60", g),
		fmt.Sprintf("+ns%d.example.com,%s,60", g, ip(5)),
		fmt.Sprintf("+www.example.com,%s,60", ip(1)),
		fmt.Sprintf("+www.example.com,%s,60,,l1", ip(11)),
		fmt.Sprintf("+www.example.com,%s,60,,l2", ip(12)),
		fmt.Sprintf("+www.example.com,2001:db8:%x::1,60", g),
		fmt.Sprintf("'txt.example.com,g=%d,60", g),
		fmt.Sprintf("@example.com,,mail.example.com,%d,60", g),
		fmt.Sprintf("+mail.example.com,%s,60", ip(2)),
		fmt.Sprintf("&sub.example.com,,ns%d.sub.example.com,60", g),
		fmt.Sprintf("+ns%d.sub.example.com,%s,60", g, ip(3)),
		fmt.Sprintf("+*.w.example.com,%s,60", ip(4)),
		fmt.Sprintf("Calias.example.com,t%d.example.com,60", g),
		fmt.Sprintf("Hsvc.example.com,.,60,,%d,alpn=h2", g),
		fmt.Sprintf("+svc.example.com,%s,60", ip(6)),
		fmt.Sprintf("+multi.example.com,%s,60", ip(7)),
		fmt.Sprintf("+multi.example.com,%s,60", ip(8)),
		fmt.Sprintf("+multi.example.com,%s,60", ip(9)),
	}
}

// stampFixed are the lines that are identical in every generation.
var stampFixed = []string{
	"+vkey.example.com,10.255.255.99,60",
	"%l1,10.0.0.0/8",
	"%l1,2001:db8::/32",
	"8www.example.com,e1",
	"8*.w.example.com,e1",
	"%l1,10.0.0.0/8,e1",
	"%l2,192.0.2.0/24,e1",
}

// StampText renders generation g; withKey=false leaves the validation key out.
func StampText(g int, withKey bool) []byte {
	var b bytes.Buffer
	for _, l := range StampLines(g) {
		b.WriteString(l + "\n")
	}
	for _, l := range stampFixed {
		if !withKey && strings.HasPrefix(l, "+vkey") {
			continue
		}
		b.WriteString(l + "\n")
	}
	return b.Bytes()
}

// StampDiff renders the diff from generation a to generation b.
func StampDiff(a, b int) []byte {
	var d bytes.Buffer
	for _, l := range StampLines(a) {
		d.WriteString("-" + l + "\n")
	}
	for _, l := range StampLines(b) {
		d.WriteString("+" + l + "\n")
	}
	return d.Bytes()
}

// ValidationKey is the database key of vkey.example.com for a backend.
func ValidationKey(b Backend) []byte {
	if b == RDBv2 {
		return append([]byte("\x00o\x03com\x07example\x04vkey\x00"), 0, 0)
	}
	return append([]byte{0, 0}, NameWire("vkey.example.com")...)
}

// Stamps extracts the generation named by every record of a response.
func Stamps(m *dns.Msg) []int {
	var out []int
	if m == nil {
		return nil
	}
	num := func(s, prefix string) (int, bool) {
		s = strings.ToLower(s)
		if !strings.HasPrefix(s, prefix) {
			return 0, false
		}
		s = s[len(prefix):]
		end := 0
		for end < len(s) && s[end] >= '0' && s[end] <= '9' {
			end++
		}
		n, err := strconv.Atoi(s[:end])
		return n, err == nil
	}
	for _, sec := range [][]dns.RR{m.Answer, m.Ns, m.Extra} {
		for _, rr := range sec {
			switch x := rr.(type) {
			case *dns.A:
				ip := x.A.To4()
				if ip != nil && ip[0] == 10 && !(ip[1] == 255 && ip[2] == 255) {
					out = append(out, int(ip[1])<<8|int(ip[2]))
				}
			case *dns.AAAA:
				ip := x.AAAA.To16()
				out = append(out, int(ip[4])<<8|int(ip[5]))
			case *dns.TXT:
				if n, ok := num(strings.Join(x.Txt, ""), "g="); ok {
					out = append(out, n)
				}
			case *dns.MX:
				out = append(out, int(x.Preference))
			case *dns.SOA:
				out = append(out, int(x.Serial))
			case *dns.NS:
				if n, ok := num(x.Ns, "ns"); ok {
					out = append(out, n)
				}
			case *dns.CNAME:
				if n, ok := num(x.Target, "t"); ok {
					out = append(out, n)
				}
			case *dns.HTTPS:
				out = append(out, int(x.Priority))
			}
		}
	}
	return out
}

// StampQueries are the questions whose answers are fully stamped.
var StampQueries = []Query{
	{Name: "www.example.com.", Type: 1, Class: 1},
	{Name: "WWW.example.COM.", Type: 28, Class: 1},
	{Name: "txt.example.com.", Type: 16, Class: 1},
	{Name: "example.com.", Type: 15, Class: 1},
	{Name: "example.com.", Type: 2, Class: 1},
	{Name: "x.sub.example.com.", Type: 1, Class: 1},
	{Name: "q.w.example.com.", Type: 1, Class: 1},
	{Name: "nx.example.com.", Type: 1, Class: 1},
	{Name: "alias.example.com.", Type: 5, Class: 1},
	{Name: "svc.example.com.", Type: 65, Class: 1},
	{Name: "example.com.", Type: 6, Class: 1},
	{Name: "www.example.com.", Type: 255, Class: 1},
	{Name: "txt.example.com.", Type: 1, Class: 1},
	{Name: "multi.example.com.", Type: 1, Class: 1},
	// types that differ from A / TXT by a multiple of 256 (CAA = 257, 272 = TXT + 256)
	{Name: "www.example.com.", Type: 257, Class: 1},
	{Name: "txt.example.com.", Type: 272, Class: 1},
}

// CopyDir copies a (small) directory tree.
func CopyDir(src, dst string) error {
	if err := os.MkdirAll(filepath.Dir(dst), 0o755); err != nil {
		return err
	}
	out, err := exec.Command("cp", "-r", src, dst).CombinedOutput()
	if err != nil {
		return fmt.Errorf("cp: %v: %s", err, out)
	}
	return nil
}

// ApplyStampDiff moves the RocksDB primary at dir from generation a to b.
func ApplyStampDiff(dir string, a, b int) error {
	u, err := rdb.NewUpdater(dir)
	if err != nil {
		return err
	}
	err = u.ApplyDiff(bytes.NewReader(StampDiff(a, b)), uint32(b))
	if cerr := u.Close(); err == nil {
		err = cerr
	}
	return err
}
