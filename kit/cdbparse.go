package kit

import (
	"encoding/binary"
	"fmt"
	"os"
)

// Independent reader of the cdb file format (http://cr.yp.to/cdb/cdb.txt); it
// shares no code with go-cdb-mods.  Layout: 256 header entries (table position,
// slot count) as little-endian uint32 pairs; records (klen, dlen, key, data)
// from offset 2048 up to the position of table 0; then the hash tables, each
// slot a (hash, record position) pair, position 0 = empty slot.

// KV is one record of a cdb file.
type KV struct{ Key, Value []byte }

// CDBFile is a parsed cdb file.
type CDBFile struct {
	Raw     []byte
	Records []KV
	RecPos  []uint32 // file offset of Records[i]
	EOD     uint32   // end of the record section
	TabPos  [256]uint32
	TabLen  [256]uint32 // slots
}

// ParseCDB reads the file and returns its records in file order.
func ParseCDB(path string) ([]KV, error) {
	b, err := os.ReadFile(path)
	if err != nil {
		return nil, err
	}
	f, err := ParseCDBBytes(b)
	if err != nil {
		return nil, err
	}
	return f.Records, nil
}

// ParseCDBBytes parses header and record section and bounds-checks the tables.
func ParseCDBBytes(b []byte) (*CDBFile, error) {
	if len(b) < 2048 {
		return nil, fmt.Errorf("cdb: file of %d bytes has no header", len(b))
	}
	if uint64(len(b)) > 0xffffffff {
		return nil, fmt.Errorf("cdb: file too large")
	}
	f := &CDBFile{Raw: b}
	le := binary.LittleEndian
	for i := 0; i < 256; i++ {
		f.TabPos[i], f.TabLen[i] = le.Uint32(b[8*i:]), le.Uint32(b[8*i+4:])
		if end := uint64(f.TabPos[i]) + 8*uint64(f.TabLen[i]); f.TabPos[i] < 2048 || end > uint64(len(b)) {
			return nil, fmt.Errorf("cdb: table %d (pos %d, %d slots) outside the file of %d bytes", i, f.TabPos[i], f.TabLen[i], len(b))
		}
	}
	f.EOD = f.TabPos[0]
	pos := uint64(2048)
	for pos < uint64(f.EOD) {
		if pos+8 > uint64(f.EOD) {
			return nil, fmt.Errorf("cdb: truncated record header at %d (end of data %d)", pos, f.EOD)
		}
		kl, dl := uint64(le.Uint32(b[pos:])), uint64(le.Uint32(b[pos+4:]))
		if pos+8+kl+dl > uint64(f.EOD) {
			return nil, fmt.Errorf("cdb: record at %d (klen %d, dlen %d) crosses end of data %d", pos, kl, dl, f.EOD)
		}
		f.Records = append(f.Records, KV{b[pos+8 : pos+8+kl : pos+8+kl], b[pos+8+kl : pos+8+kl+dl : pos+8+kl+dl]})
		f.RecPos = append(f.RecPos, uint32(pos))
		pos += 8 + kl + dl
	}
	return f, nil
}

// CDBHashError is returned by Verify when a slot stores another hash than the
// one computed from the record's key.
type CDBHashError struct {
	Table            int
	Slot             uint32
	Record           int
	Stored, Computed uint32
}

func (e *CDBHashError) Error() string {
	return fmt.Sprintf("table %d slot %d: record %d is stored under hash %#x, its key hashes to %#x", e.Table, e.Slot, e.Record, e.Stored, e.Computed)
}

// Slot returns slot j of table t.
func (f *CDBFile) Slot(t int, j uint32) (h, pos uint32) {
	o := f.TabPos[t] + 8*j
	return binary.LittleEndian.Uint32(f.Raw[o:]), binary.LittleEndian.Uint32(f.Raw[o+4:])
}

// Verify checks the hash tables: they follow the records back to back in index
// order up to the end of the file, each has twice as many slots as entries,
// every record is referenced by exactly one slot of the table named by the low
// byte of its hash, and it is reachable from its start slot ((hash>>8) mod
// slots) without crossing an empty slot.  hash may be nil (then the stored
// hash is trusted).
func (f *CDBFile) Verify(hash func([]byte) uint32) error {
	rec := make(map[uint32]int, len(f.RecPos))
	for i, p := range f.RecPos {
		rec[p] = i
	}
	seen := make([]bool, len(f.RecPos))
	next := f.EOD
	for t := 0; t < 256; t++ {
		n := f.TabLen[t]
		if f.TabPos[t] != next {
			return fmt.Errorf("table %d at %d, expected at %d", t, f.TabPos[t], next)
		}
		next += 8 * n
		used := uint32(0)
		for j := uint32(0); j < n; j++ {
			h, pos := f.Slot(t, j)
			if pos == 0 {
				continue
			}
			used++
			i, ok := rec[pos]
			if !ok {
				return fmt.Errorf("table %d slot %d points at %d which is not a record", t, j, pos)
			}
			if seen[i] {
				return fmt.Errorf("record at %d referenced twice", pos)
			}
			seen[i] = true
			if int(h&0xff) != t {
				return fmt.Errorf("table %d slot %d holds hash %#x of table %d", t, j, h, h&0xff)
			}
			if hash != nil && hash(f.Records[i].Key) != h {
				return &CDBHashError{Table: t, Slot: j, Record: i, Stored: h, Computed: hash(f.Records[i].Key)}
			}
			for k := (h >> 8) % n; k != j; k = (k + 1) % n {
				if _, p := f.Slot(t, k); p == 0 {
					return fmt.Errorf("table %d slot %d (start %d) is behind empty slot %d", t, j, (h>>8)%n, k)
				}
			}
		}
		if used*2 != n {
			return fmt.Errorf("table %d has %d slots for %d entries", t, n, used)
		}
	}
	if uint64(next) != uint64(len(f.Raw)) {
		return fmt.Errorf("tables end at %d, file has %d bytes", next, len(f.Raw))
	}
	for i, s := range seen {
		if !s {
			return fmt.Errorf("record %d at %d is in no table", i, f.RecPos[i])
		}
	}
	return nil
}

// Lookup is the reference reader: all values of key (h = its hash) in probe
// order, the number of slots examined and whether an occupied slot was
// examined after probing wrapped around the end of the table.
func (f *CDBFile) Lookup(key []byte, h uint32) (vals [][]byte, probes int, wrapped bool) {
	t := int(h & 0xff)
	n := f.TabLen[t]
	if n == 0 {
		return nil, 0, false
	}
	j := (h >> 8) % n
	around := false
	for c := uint32(0); c < n; c++ {
		sh, pos := f.Slot(t, j)
		probes++
		if pos == 0 {
			break
		}
		wrapped = wrapped || around
		if sh == h {
			kl, dl := binary.LittleEndian.Uint32(f.Raw[pos:]), binary.LittleEndian.Uint32(f.Raw[pos+4:])
			if int(kl) == len(key) && string(f.Raw[pos+8:pos+8+kl]) == string(key) {
				vals = append(vals, f.Raw[pos+8+kl:pos+8+kl+dl])
			}
		}
		if j++; j == n {
			j, around = 0, true
		}
	}
	return vals, probes, wrapped
}
