package props

import (
	"context"
	"fmt"
	"net"
	"os"
	"strings"
	"sync"
	"sync/atomic"
	"testing"
	"time"

	"github.com/facebookincubator/dns/dnsrocks/dnsserver"
	"github.com/facebookincubator/dns/dnsrocks/dnsserver/stats"
	"github.com/facebookincubator/dns/dnsrocks/fbserver"
	"github.com/facebookincubator/dns/dnsrocks/metrics"
	"github.com/miekg/dns"
	"pgregory.net/rapid"

	"verif/kit"
)

// C20: transport and plugin chain do not alter answers.

type c20Config struct {
	Backend   string `json:"backend"`
	Whoami    bool   `json:"whoami"`
	RefuseANY bool   `json:"refuse_any"`
	MaxAns    int    `json:"max_answers"`
	MaxAns2   int    `json:"max_answers_second_listener,omitempty"` // > 0: a second listener on 127.0.0.2 with its own setting
}

type c20Exchange struct {
	Name string `json:"name"`
	Type uint16 `json:"type"`
	TCP  bool   `json:"tcp"`
	Buf  int    `json:"buf"` // 0 = no OPT
	Raw  bool   `json:"raw_header_only,omitempty"`
	ECS  bool   `json:"ecs,omitempty"`
	// Class: 0 means IN
	Class  uint16 `json:"class,omitempty"`
	Second bool   `json:"second_listener,omitempty"`
}

type c20Case struct {
	Config   c20Config   `json:"config"`
	Exchange c20Exchange `json:"exchange"`
	Got      string      `json:"got,omitempty"`
	Want     string      `json:"want,omitempty"`
}

const c20WhoamiDomain = "whoami.example.com."

var (
	c20Once  sync.Once
	c20Paths = map[kit.Backend]string{}
	c20Err   error
)

func c20Setup() {
	dir := kit.Scratch("c20")
	for _, b := range kit.AllBackends {
		p, err := kit.Compile([]byte(c13Normal+bigRRset()+"+whoami.example.com,192.0.2.250\n+whoamj.example.com,192.0.2.251\n+x.whoami.example.com,192.0.2.252\n'x.whoami.example.com,below the whoami name\n'whoami.example.com,from the database\n"), 1, dir, b, kit.DefaultCompile)
		if err != nil {
			c20Err = err
			return
		}
		c20Paths[b] = p
	}
}

var c20PortCounter uint32

// freePort picks a server port below the kernel's ephemeral range (32768..):
// the clients of 16 shards open hundreds of TCP connections per second, and a
// listener cannot bind a port that an outgoing connection (even one in
// TIME_WAIT) occupies, so ports taken from the ephemeral range collide.
func freePort() (int, error) {
	var lastErr error
	for try := 0; try < 300; try++ {
		n := atomic.AddUint32(&c20PortCounter, 1)
		port := 12000 + int((uint32(kit.Shard())*1237+uint32(os.Getpid())*31+n*7)%20000)
		ok := true
		for _, ip := range []string{"127.0.0.1", "127.0.0.2"} {
			t, err := net.Listen("tcp", fmt.Sprintf("%s:%d", ip, port))
			if err != nil {
				ok, lastErr = false, err
				break
			}
			t.Close()
			u, err := net.ListenUDP("udp", &net.UDPAddr{IP: net.ParseIP(ip), Port: port})
			if err != nil {
				ok, lastErr = false, err
				break
			}
			u.Close()
		}
		if ok {
			return port, nil
		}
	}
	return 0, lastErr
}

// c20Exchange is one query over a fresh socket.  TCP connections are closed with
// linger 0 (RST, no TIME_WAIT): tens of thousands of client sockets in TIME_WAIT
// would exhaust the ephemeral port range of the machine and turn into
// transport errors that have nothing to do with the server.
func c20ExchangeMsg(c *dns.Client, req *dns.Msg, addr string) (*dns.Msg, error) {
	co, err := c.Dial(addr)
	if err != nil {
		return nil, err
	}
	defer co.Close()
	if tc, ok := co.Conn.(*net.TCPConn); ok {
		_ = tc.SetLinger(0)
	}
	r, _, err := c.ExchangeWithConn(req, co)
	return r, err
}

func c20Start(cfg c20Config, b kit.Backend) (*fbserver.Server, int, error) {
	var lastErr error
	for attempt := 0; attempt < 8; attempt++ {
		port, err := freePort()
		if err != nil {
			lastErr = err
			continue
		}
		conf := fbserver.NewServerConfig()
		_ = conf.IPAns.Set(fmt.Sprintf("127.0.0.1,%d", cfg.MaxAns))
		if cfg.MaxAns2 > 0 {
			_ = conf.IPAns.Set(fmt.Sprintf("127.0.0.2,%d", cfg.MaxAns2))
		}
		conf.Port = port
		conf.TCP = true
		conf.ReadTimeout = 2 * time.Second
		conf.TCPIdleTimeout = 2 * time.Second
		conf.RefuseANY = cfg.RefuseANY
		if cfg.Whoami {
			conf.WhoamiDomain = c20WhoamiDomain
		}
		conf.DBConfig = dnsserver.DBConfig{Path: c20Paths[b], Driver: b.Driver(), ReloadTimeout: 30 * time.Second}
		me, _ := metrics.NewDummyMetricsServer(":0")
		srv := fbserver.NewServer(conf, &dnsserver.DummyLogger{}, &stats.DummyStats{}, me)
		up := make(chan struct{}, 4)
		srv.NotifyStartedFunc = func() { up <- struct{}{} }
		if err := srv.Start(); err != nil {
			lastErr = err
			srv.Shutdown()
			continue
		}
		ok := true
		nl := 2
		if cfg.MaxAns2 > 0 {
			nl = 4
		}
		for i := 0; i < nl; i++ {
			select {
			case <-up:
			case <-time.After(5 * time.Second):
				ok = false
			}
		}
		if ok {
			return srv, port, nil
		}
		lastErr = fmt.Errorf("listeners on port %d did not come up", port)
		srv.Shutdown()
	}
	return nil, 0, lastErr
}

var c20Names = []string{"www.example.com.", "WWW.example.COM.", "big.example.com.", "manyns.example.com.", "x.manyns.example.com.", "example.com.", "nope.example.com.", "sub.example.com.", "other.org.",
	"whoami.example.com.", "WhoAmI.Example.Com.", "whoamj.example.com.", "x.whoami.example.com.", "X.WhoAmI.example.com.", "nope.whoami.example.com.", "a.x.whoami.example.com.", "xwhoami.example.com.", "x.wild.example.com.", "svc.example.com.", "txt.example.com.", "alias.example.com."}

func c20Render(m *dns.Msg) string {
	if m == nil {
		return "<no response>"
	}
	s := kit.Normal(m, c13Weighted)
	if len(m.Question) > 0 {
		s += fmt.Sprintf("question=%s/%d/%d", m.Question[0].Name, m.Question[0].Qtype, m.Question[0].Qclass)
	}
	s += fmt.Sprintf(" id=%d qr=%v", m.Id, m.Response)
	if o := m.IsEdns0(); o != nil {
		s += fmt.Sprintf(" opt udp=%d", o.UDPSize())
	}
	return s
}

func c20Check(t kit.Fataler, cfg c20Config, port int, ref *dnsserver.FBDNSDB, ex c20Exchange, record bool) {
	cs := c20Case{Config: cfg, Exchange: ex}
	fail := func(key, format string, a ...interface{}) {
		kit.Fail(t, "C20", key, cs, "config %+v exchange %+v: "+format, append([]interface{}{cfg, ex}, a...)...)
	}
	addr := fmt.Sprintf("127.0.0.1:%d", port)
	maxAns := cfg.MaxAns
	if ex.Second && cfg.MaxAns2 > 0 {
		addr = fmt.Sprintf("127.0.0.2:%d", port)
		maxAns = cfg.MaxAns2
	}
	if ex.Raw {
		// a header-only datagram (QDCOUNT 0): must be answered with a failure, and the server must survive
		conn, err := net.DialTimeout("udp", addr, 2*time.Second)
		if err != nil {
			fail("transport-error", "dial: %v", err)
		}
		defer conn.Close()
		hdr := []byte{0xab, 0xcd, 0x01, 0x00, 0, 0, 0, 0, 0, 0, 0, 0}
		_ = conn.SetDeadline(time.Now().Add(3 * time.Second))
		if _, err := conn.Write(hdr); err != nil {
			fail("transport-error", "write: %v", err)
		}
		buf := make([]byte, 4096)
		n, err := conn.Read(buf)
		if err != nil {
			fail("no-reply-to-questionless-message", "no reply to a message without question: %v", err)
		}
		r := new(dns.Msg)
		if err := r.Unpack(buf[:n]); err != nil || r.Id != 0xabcd || r.Rcode == dns.RcodeSuccess || !r.Response || len(r.Answer) > 0 {
			fail("questionless-message-reply", "reply to a message without question: %v err=%v", r, err)
		}
		ex = c20Exchange{Name: "www.example.com.", Type: 1}
		if record {
			kit.Class("raw-header-only")
			kit.NonTrivial(fmt.Sprintf("raw|%+v", cfg))
		}
	}
	req := new(dns.Msg)
	req.SetQuestion(ex.Name, ex.Type)
	req.RecursionDesired = false
	if ex.Class != 0 {
		req.Question[0].Qclass = ex.Class
	}
	client := &dns.Client{Net: "udp", Timeout: 3 * time.Second}
	if ex.TCP {
		client.Net = "tcp"
	}
	if ex.Buf > 0 {
		req.SetEdns0(uint16(ex.Buf), false)
		client.UDPSize = uint16(ex.Buf)
		if ex.ECS {
			o := req.IsEdns0()
			o.Option = append(o.Option, &dns.EDNS0_SUBNET{Code: dns.EDNS0SUBNET, Family: 1, SourceNetmask: 24, Address: net.ParseIP("10.1.2.0").To4()})
		}
	}
	var got *dns.Msg
	var err error
	for attempt := 0; attempt < 3; attempt++ {
		got, err = c20ExchangeMsg(client, req.Copy(), addr)
		if err == nil {
			break
		}
	}
	if err != nil {
		fail("no-response-over-transport", "exchange failed: %v", err)
	}
	cs.Got = c20Render(got)
	isWhoami := cfg.Whoami && strings.EqualFold(ex.Name, c20WhoamiDomain)
	switch {
	case cfg.RefuseANY && ex.Type == dns.TypeANY:
		if got.Rcode != 0 || len(got.Answer) != 1 || len(got.Ns) != 0 {
			fail("any-refusal", "ANY with refusal enabled answered %s", cs.Got)
		}
		h, ok := got.Answer[0].(*dns.HINFO)
		if !ok || h.Cpu != "RFC 8482" || h.Hdr.Name != ex.Name {
			fail("any-refusal", "ANY with refusal enabled answered %s", cs.Got)
		}
		for _, rr := range got.Extra {
			if rr.Header().Rrtype != dns.TypeOPT {
				fail("any-refusal", "ANY refusal carries database records: %s", cs.Got)
			}
		}
		if record {
			kit.Class("any-refused")
			if ex.Class != 0 && ex.Class != 1 {
				kit.Class("any-refused:class-not-IN")
			}
		}
	case isWhoami:
		if got.Rcode != 0 || !got.Authoritative {
			fail("whoami", "whoami name answered %s", cs.Got)
		}
		for _, rr := range got.Answer {
			x, ok := rr.(*dns.TXT)
			if !ok || strings.Contains(strings.Join(x.Txt, ""), "from the database") {
				fail("whoami-shadowed", "whoami name answered from the database: %s", cs.Got)
			}
		}
		if ex.Type == dns.TypeTXT {
			joined := ""
			for _, rr := range got.Answer {
				joined += strings.Join(rr.(*dns.TXT).Txt, "") + ";"
			}
			proto := "protocol udp"
			if ex.TCP {
				proto = "protocol tcp"
			}
			if !strings.Contains(strings.ToLower(joined), proto) || !strings.Contains(joined, "source 127.0.0.1:") {
				fail("whoami", "whoami TXT answer lacks protocol/source: %s", joined)
			}
		}
		if record {
			kit.Class("whoami")
		}
	default:
		// same answer as the bare database handler with this listener's max-answer setting
		w := &kit.Writer{Remote: "127.0.0.1", TCP: ex.TCP}
		_, _ = ref.ServeDNS(dnsserver.WithMaxAnswer(context.Background(), maxAns), w, req.Copy())
		var want *dns.Msg
		if len(w.Msgs) > 0 {
			buf, perr := w.Msgs[0].Pack()
			if perr != nil {
				fail("harness-error", "reference response does not pack: %v", perr)
			}
			want = new(dns.Msg)
			_ = want.Unpack(buf)
		}
		cs.Want = c20Render(want)
		if cs.Got != cs.Want {
			fail("transport-differs-from-handler", "over the wire:\n%s\nbare handler:\n%s", cs.Got, cs.Want)
		}
		// address answers honour the listener's max-answer setting
		na := 0
		for _, rr := range got.Answer {
			if rr.Header().Rrtype == dns.TypeA {
				na++
			}
		}
		if ex.Type == dns.TypeA && na > maxAns {
			fail("max-answer", "%d A records with max answers %d", na, maxAns)
		}
		if record && ex.Second && cfg.MaxAns2 > 0 && cfg.MaxAns2 != cfg.MaxAns {
			kit.Class("second-listener-with-other-max-answer")
		}
		if !ex.TCP {
			limit := 512
			if ex.Buf > limit {
				limit = ex.Buf
			}
			gc := got.Copy()
			gc.Compress = true // what was on the wire was compressed
			wire, _ := gc.Pack()
			if len(wire) > limit {
				fail("udp-oversize", "UDP response of %d bytes exceeds the buffer of %d", len(wire), limit)
			}
			// complete answer over TCP
			wt := &kit.Writer{Remote: "127.0.0.1", TCP: true}
			_, _ = ref.ServeDNS(dnsserver.WithMaxAnswer(context.Background(), maxAns), wt, req.Copy())
			if len(wt.Msgs) > 0 {
				fm := wt.Msgs[0].Copy()
				fm.Compress = true
				full, _ := fm.Pack()
				if len(full) > limit && !got.Truncated {
					fail("udp-not-truncated", "the complete answer has %d bytes, the UDP buffer %d, but TC is not set", len(full), limit)
				}
				if len(full) <= limit && got.Truncated {
					fail("udp-truncated-needlessly", "the complete answer (%d bytes) fits the buffer (%d) but TC is set", len(full), limit)
				}
				if got.Truncated {
					tc := &dns.Client{Net: "tcp", Timeout: 3 * time.Second}
					overTCP, terr := c20ExchangeMsg(tc, req.Copy(), addr)
					if terr != nil || overTCP.Truncated || c20Render(overTCP) != c20Render(mustRoundTrip(wt.Msgs[0])) {
						fail("tcp-retry-incomplete", "after a truncated UDP answer the TCP answer is not the complete one: %v %s", terr, c20Render(overTCP))
					}
					if record {
						kit.Class("udp-truncated-then-tcp")
					}
				}
			}
		}
		if record {
			kit.Class("db-answer")
		}
	}
	if record {
		wire, _ := got.Pack()
		if len(wire) > 512 || ex.Type == dns.TypeANY || isWhoami || ex.TCP {
			sz := "small"
			if len(wire) > 512 {
				sz = "big"
			}
			kit.NonTrivial(fmt.Sprintf("%+v|%v|%d|%s|%s|%d|%d", cfg, ex.TCP, ex.Buf, sz, ex.Name, ex.Type, got.Rcode))
		}
	}
}

func mustRoundTrip(m *dns.Msg) *dns.Msg {
	buf, err := m.Pack()
	if err != nil {
		return m
	}
	out := new(dns.Msg)
	_ = out.Unpack(buf)
	return out
}

func genC20Exchange(t *rapid.T) c20Exchange {
	ex := c20Exchange{Name: rapid.SampledFrom(c20Names).Draw(t, "name")}
	ex.Type = rapid.SampledFrom([]uint16{1, 1, 28, 16, 16, 2, 15, 255, 255, 6, 65, 5}).Draw(t, "type")
	ex.TCP = rapid.IntRange(0, 3).Draw(t, "tcp") == 0
	ex.Buf = rapid.SampledFrom([]int{0, 0, 512, 1232, 4096}).Draw(t, "buf")
	ex.Raw = rapid.IntRange(0, 24).Draw(t, "raw") == 0
	ex.ECS = ex.Buf > 0 && rapid.Bool().Draw(t, "ecs")
	ex.Class = rapid.SampledFrom([]uint16{0, 0, 0, 0, 0, 0, 3, 4, 255, 254, 2}).Draw(t, "class")
	ex.Second = rapid.Bool().Draw(t, "second-listener")
	return ex
}

func c20Run(t kit.Fataler, cfg c20Config, exs []c20Exchange, record bool) {
	var b kit.Backend
	for _, x := range kit.AllBackends {
		if x.String() == cfg.Backend {
			b = x
		}
	}
	srv, port, err := c20Start(cfg, b)
	if err != nil {
		kit.Fail(t, "C20", "server-start", c20Case{Config: cfg}, "server did not start: %v", err)
		return
	}
	defer srv.Shutdown()
	ref, err := kit.OpenHandler(c20Paths[b], b, kit.HandlerOpts{})
	if err != nil {
		kit.Fail(t, "C20", "setup-error", c20Case{Config: cfg}, "reference handler: %v", err)
		return
	}
	defer ref.Close()
	for _, ex := range exs {
		c20Check(t, cfg, port, ref, ex, record)
	}
	// one socket / connection, several queries in a row (some of them REFUSED): the k-th
	// reply read answers the k-th query, and nothing else arrives afterwards
	for _, network := range []string{"udp", "tcp"} {
		conn, err := dns.DialTimeout(network, fmt.Sprintf("127.0.0.1:%d", port), 2*time.Second)
		if err != nil {
			kit.Fail(t, "C20", "transport-error", c20Case{Config: cfg}, "dial %s: %v", network, err)
			continue
		}
		if tc, ok := conn.Conn.(*net.TCPConn); ok {
			_ = tc.SetLinger(0)
		}
		seq := []string{"other.org.", "www.example.com.", "nope.example.com.", "refused.invalid.", "txt.example.com.", "other.org.", "example.com."}
		for i, name := range seq {
			req := new(dns.Msg)
			req.SetQuestion(name, []uint16{dns.TypeA, dns.TypeTXT, dns.TypeANY}[i%3])
			req.Id = uint16(4000 + i)
			_ = conn.SetDeadline(time.Now().Add(3 * time.Second))
			if err := conn.WriteMsg(req); err != nil {
				kit.Fail(t, "C20", "transport-error", c20Case{Config: cfg}, "write on a reused %s connection: %v", network, err)
				break
			}
			r, err := conn.ReadMsg()
			if err != nil {
				kit.Fail(t, "C20", "no-response-over-transport", c20Case{Config: cfg, Exchange: c20Exchange{Name: name, TCP: network == "tcp"}}, "query %d (%s) on a reused %s connection: %v", i, name, network, err)
				break
			}
			if r.Id != req.Id || len(r.Question) != 1 || r.Question[0].Name != name {
				kit.Fail(t, "C20", "reply-does-not-match-query", c20Case{Config: cfg, Exchange: c20Exchange{Name: name, TCP: network == "tcp"}, Got: c20Render(r)},
					"query %d on a reused %s connection asked %s with id %d, the reply read is %s", i, network, name, req.Id, c20Render(r))
				break
			}
		}
		_ = conn.SetDeadline(time.Now().Add(150 * time.Millisecond))
		if r, err := conn.ReadMsg(); err == nil {
			kit.Fail(t, "C20", "extra-response", c20Case{Config: cfg, Exchange: c20Exchange{Name: "(sequence on one connection)", TCP: network == "tcp"}, Got: c20Render(r)},
				"after %d queries and %d replies on one %s connection another message arrived: %s", len(seq), len(seq), network, c20Render(r))
		}
		conn.Close()
		if record {
			kit.Class("connection-reuse:" + network)
		}
	}
	// concurrent phase: many clients at once, each asking for its own name; every reply
	// must be about the name that was asked (ANY refusal synthesises a record per request)
	var wg sync.WaitGroup
	var mu sync.Mutex
	var bad []string
	addr := fmt.Sprintf("127.0.0.1:%d", port)
	for g := 0; g < 8; g++ {
		wg.Add(1)
		go func(g int) {
			defer wg.Done()
			c := &dns.Client{Net: []string{"udp", "tcp"}[g%2], Timeout: 3 * time.Second}
			for i := 0; i < 40; i++ {
				name := fmt.Sprintf("c%d-%d.%s", g, i, []string{"example.com.", "wild.example.com.", "other.org."}[i%3])
				req := new(dns.Msg)
				req.SetQuestion(name, []uint16{dns.TypeANY, dns.TypeA}[i%2])
				r, err := c20ExchangeMsg(c, req, addr)
				if err != nil {
					continue
				}
				msg := ""
				if len(r.Question) != 1 || r.Question[0].Name != name {
					msg = fmt.Sprintf("asked %s, reply question %v", name, r.Question)
				}
				for _, rr := range r.Answer {
					if rr.Header().Name != name {
						msg = fmt.Sprintf("asked %s type %d, answer record owned by %s", name, req.Question[0].Qtype, rr.Header().Name)
					}
				}
				if msg != "" {
					mu.Lock()
					bad = append(bad, msg)
					mu.Unlock()
				}
			}
		}(g)
	}
	wg.Wait()
	if len(bad) > 0 {
		kit.Fail(t, "C20", "concurrent-reply-mixup", c20Case{Config: cfg, Exchange: c20Exchange{Name: "(8 concurrent clients, ANY and A for distinct names)"}}, "under 8 concurrent clients: %s (%d such replies)", bad[0], len(bad))
	}
	if record {
		kit.Class("concurrent-phase")
	}
}

func TestC20(t *testing.T) {
	c20Once.Do(c20Setup)
	if c20Err != nil {
		t.Fatalf("setup: %v", c20Err)
	}
	if f := kit.ReplayFile(); f != "" {
		var c c20Case
		kit.LoadReplay(t, f, &c)
		c20Run(t, c.Config, []c20Exchange{c.Exchange}, false)
		kit.Eval()
		return
	}
	kit.SetRapid(kit.N(160, 2400))
	rapid.Check(t, kit.Prop("C20", func(t *rapid.T) {
		cfg := c20Config{
			Backend:   rapid.SampledFrom(kit.AllBackends).Draw(t, "backend").String(),
			Whoami:    rapid.Bool().Draw(t, "whoami"),
			RefuseANY: rapid.Bool().Draw(t, "refuseany"),
			MaxAns:    rapid.SampledFrom([]int{1, 2, 8}).Draw(t, "maxans"),
			MaxAns2:   rapid.SampledFrom([]int{0, 1, 3, 8}).Draw(t, "maxans2"),
		}
		n := rapid.IntRange(40, 120).Draw(t, "nex")
		exs := make([]c20Exchange, n)
		for i := range exs {
			exs[i] = genC20Exchange(t)
		}
		kit.Case(c20Case{Config: cfg})
		c20Run(t, cfg, exs, true)
		kit.ClassN("exchanges", int64(n))
		kit.Class(fmt.Sprintf("config:whoami=%v,any=%v,max=%d", cfg.Whoami, cfg.RefuseANY, cfg.MaxAns))
		kit.Sample(map[string]interface{}{"config": cfg, "first_exchanges": exs[:3]})
	}))
}
