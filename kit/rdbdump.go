package kit

import (
	"encoding/binary"
	"fmt"
	"os"

	rocksdb "github.com/facebookincubator/dns/dnsrocks/cgo-rocksdb"
)

// DecodeChunks splits a stored multi-value into its chunks.  The stored form is
// a concatenation of <4-byte little-endian length><bytes> records.  This is an
// independent decoder (it does not call rdb.ReadNextChunk); anything that is
// not a whole number of well-formed records is an error.
func DecodeChunks(data []byte) ([]string, error) {
	out := []string{}
	for off := 0; off < len(data); {
		if len(data)-off < 4 {
			return out, fmt.Errorf("truncated length prefix at offset %d of %d-byte value %x", off, len(data), data)
		}
		n := uint64(binary.LittleEndian.Uint32(data[off : off+4]))
		off += 4
		if n > uint64(len(data)-off) {
			return out, fmt.Errorf("chunk of %d bytes at offset %d overruns %d-byte value %x", n, off, len(data), data)
		}
		out = append(out, string(data[off:off+int(n)]))
		off += int(n)
	}
	return out, nil
}

// DumpRDBRaw opens the RocksDB directory read-only (no lock is taken, the
// directory may be open elsewhere; only data already flushed to SST/WAL files
// is visible - the dnsrocks writers disable the WAL, so dump after the writer
// called Close) and returns every key with its raw stored value, in key order.
func DumpRDBRaw(dir string) (keys []string, values [][]byte, err error) {
	if info, serr := os.Stat(dir); serr != nil || !info.IsDir() {
		return nil, nil, fmt.Errorf("DumpRDB: %s is not a directory: %v", dir, serr)
	}
	opts := rocksdb.NewOptions()
	db, err := rocksdb.OpenDatabase(dir, true, false, opts)
	if err != nil {
		opts.FreeOptions()
		return nil, nil, fmt.Errorf("DumpRDB: open %s read-only: %w", dir, err)
	}
	// CloseDatabase frees the options too.
	defer db.CloseDatabase()
	ro := rocksdb.NewDefaultReadOptions()
	defer ro.FreeReadOptions()
	it := db.CreateIterator(ro)
	defer it.FreeIterator()
	for it.SeekToFirst(); it.IsValid(); it.Next() {
		keys = append(keys, string(it.Key()))
		values = append(values, it.Value())
	}
	if err := it.GetError(); err != nil {
		return nil, nil, fmt.Errorf("DumpRDB: iterate %s: %w", dir, err)
	}
	return keys, values, nil
}

// DumpRDB returns key -> list of value chunks in stored order for the whole
// database in dir.  A key stored with a zero-length value is reported with an
// empty (non-nil) list, so callers can tell "key exists without values" from
// "key absent".  See DumpRDBRaw for what is visible.
func DumpRDB(dir string) (map[string][]string, error) {
	keys, values, err := DumpRDBRaw(dir)
	if err != nil {
		return nil, err
	}
	out := make(map[string][]string, len(keys))
	for i, k := range keys {
		if _, dup := out[k]; dup {
			return nil, fmt.Errorf("DumpRDB: iterator returned key %q twice", k)
		}
		chunks, err := DecodeChunks(values[i])
		if err != nil {
			return nil, fmt.Errorf("DumpRDB: key %q: %w", k, err)
		}
		out[k] = chunks
	}
	return out, nil
}
