package props

import (
	"bytes"
	"encoding"
	"encoding/binary"
	"encoding/hex"
	"fmt"
	"sort"
	"strconv"
	"strings"
	"testing"

	"github.com/facebookincubator/dns/dnsrocks/dnsdata"
	"github.com/facebookincubator/dns/dnsrocks/dnsdata/svcb"
	"github.com/miekg/dns"
	"pgregory.net/rapid"

	"verif/kit"
)

// C18: SVCB/HTTPS parameters compile to conformant, faithful wire data.
//
// A case is a STRUCTURED parameter list (keys, values as bytes, the textual
// form chosen for every value, the order in which keys and values are
// written, quoting) plus the surrounding B/H data line.  The harness renders
// it to the data-file syntax, feeds it to svcb.ParamList.FromText and to
// dnsdata.Codec.ConvertLn, and decides with
//   oracle 1: an RFC 9460 SvcParams decoder written here (c18Decode),
//   oracle 2: miekg/dns UnpackRR on the full resource record,
//   oracle 3: ToText -> FromText (and MarshalText -> ConvertLn) wire identity.

var c18Names = []string{"mandatory", "alpn", "no-default-alpn", "port", "ipv4hint", "echconfig", "ipv6hint"}

// Shape keys of violations.
const (
	c18KMapped   = "ipv6hint-v4mapped-text-roundtrip"
	c18KAlpnLen  = "alpn-id-length-accepted"
	c18KEmptySeg = "empty-segment-drops-params"
)

type c18Addr struct {
	Hex  string `json:"hex"`
	Form int    `json:"form"`
}

type c18Param struct {
	Key    int       `json:"key"`            // 0..6, -1 for an unknown key (Name is used)
	Name   string    `json:"name,omitempty"` // overrides the key name
	Mand   []int     `json:"mand,omitempty"` // as written (order, repetition)
	Alpn   []string  `json:"alpn,omitempty"` // hex of every id, as written
	Port   string    `json:"port,omitempty"` // decimal text as written
	Addrs  []c18Addr `json:"addrs,omitempty"`
	Ech    string    `json:"ech,omitempty"` // hex
	Raw    *string   `json:"raw,omitempty"` // value text override (malformed variants)
	Quoted bool      `json:"quoted,omitempty"`
	NoEq   bool      `json:"noeq,omitempty"`
	Bad    bool      `json:"bad,omitempty"` // this parameter is the malformed one: no declared value
}

type c18Case struct {
	Params     []c18Param `json:"params"` // in the order written
	Kind       string     `json:"kind,omitempty"`
	TrailSemi  bool       `json:"trail_semi,omitempty"`
	EmptySegAt int        `json:"empty_seg_at,omitempty"` // k>0: an empty segment before parameter k-1
	Rtype      string     `json:"rtype"`
	Owner      string     `json:"owner"`
	Target     string     `json:"target"`
	TTL        uint32     `json:"ttl"`
	Loc        string     `json:"loc,omitempty"` // hex, two bytes or empty
	Prio       uint16     `json:"prio"`
	Text       string     `json:"text,omitempty"` // informational: the rendered parameter list
	IsSoup     bool       `json:"is_soup,omitempty"`
	Soup       string     `json:"soup,omitempty"`  // token-soup phase: the raw parameter text
	Batch      []c18Case  `json:"batch,omitempty"` // sequence phase: lists parsed one after the other, emitted afterwards
}

var c18Strict = map[string]string{
	"mand-missing": "mandatory-missing-key-accepted",
	"mand-self":    "mandatory-self-accepted",
	"mand-repeat":  "mandatory-repeat-accepted",
}

// ---------------------------------------------------------------- rendering

const c18B64 = "ABCDEFGHIJKLMNOPQRSTUVWXYZabcdefghijklmnopqrstuvwxyz0123456789+/"

func c18Base64(b []byte) string {
	var sb strings.Builder
	for i := 0; i < len(b); i += 3 {
		var n uint32
		k := len(b) - i
		if k > 3 {
			k = 3
		}
		for j := 0; j < 3; j++ {
			n <<= 8
			if j < k {
				n |= uint32(b[i+j])
			}
		}
		sb.WriteByte(c18B64[n>>18&63])
		sb.WriteByte(c18B64[n>>12&63])
		if k > 1 {
			sb.WriteByte(c18B64[n>>6&63])
		} else {
			sb.WriteByte('=')
		}
		if k > 2 {
			sb.WriteByte(c18B64[n&63])
		} else {
			sb.WriteByte('=')
		}
	}
	return sb.String()
}

// c18Compress renders groups in hexadecimal with the leftmost longest run of
// >= 2 zero groups replaced by "::".
func c18Compress(g []uint16, upper bool) string {
	bs, bl := -1, 0
	for i := 0; i < len(g); {
		if g[i] != 0 {
			i++
			continue
		}
		j := i
		for j < len(g) && g[j] == 0 {
			j++
		}
		if j-i > bl {
			bs, bl = i, j-i
		}
		i = j
	}
	f := "%x"
	if upper {
		f = "%X"
	}
	part := func(a []uint16) string {
		s := make([]string, len(a))
		for i, v := range a {
			s[i] = fmt.Sprintf(f, v)
		}
		return strings.Join(s, ":")
	}
	if bl < 2 {
		return part(g)
	}
	return part(g[:bs]) + "::" + part(g[bs+bl:])
}

func c18V4Text(b []byte) string {
	return fmt.Sprintf("%d.%d.%d.%d", b[0], b[1], b[2], b[3])
}

// c18V6Text renders a 16-byte address in one of five textual forms.
func c18V6Text(b []byte, form int) string {
	var g [8]uint16
	for i := range g {
		g[i] = binary.BigEndian.Uint16(b[2*i:])
	}
	switch form {
	case 1: // all groups, four digits each
		s := make([]string, 8)
		for i, v := range g {
			s[i] = fmt.Sprintf("%04x", v)
		}
		return strings.Join(s, ":")
	case 2: // all groups, no padding
		s := make([]string, 8)
		for i, v := range g {
			s[i] = fmt.Sprintf("%x", v)
		}
		return strings.Join(s, ":")
	case 3:
		return c18Compress(g[:], true)
	case 4: // dotted-quad tail
		h := c18Compress(g[:6], false)
		if strings.HasSuffix(h, "::") {
			return h + c18V4Text(b[12:])
		}
		return h + ":" + c18V4Text(b[12:])
	}
	return c18Compress(g[:], false)
}

func c18AddrText(key int, a c18Addr) string {
	b, _ := hex.DecodeString(a.Hex)
	if key == 4 {
		if len(b) != 4 {
			return "?"
		}
		switch a.Form {
		case 1:
			return "::ffff:" + c18V4Text(b)
		case 2:
			return fmt.Sprintf("::ffff:%x:%x", binary.BigEndian.Uint16(b), binary.BigEndian.Uint16(b[2:]))
		}
		return c18V4Text(b)
	}
	if len(b) != 16 {
		return "?"
	}
	return c18V6Text(b, a.Form)
}

func c18IsMapped(b []byte) bool {
	if len(b) != 16 {
		return false
	}
	for i := 0; i < 10; i++ {
		if b[i] != 0 {
			return false
		}
	}
	return b[10] == 0xff && b[11] == 0xff
}

func (p *c18Param) valueText() string {
	if p.Raw != nil {
		return *p.Raw
	}
	var s []string
	switch p.Key {
	case 0:
		for _, m := range p.Mand {
			s = append(s, c18Names[m])
		}
	case 1:
		for _, h := range p.Alpn {
			b, _ := hex.DecodeString(h)
			s = append(s, string(b))
		}
	case 3:
		return p.Port
	case 4, 6:
		for _, a := range p.Addrs {
			s = append(s, c18AddrText(p.Key, a))
		}
	case 5:
		b, _ := hex.DecodeString(p.Ech)
		return c18Base64(b)
	}
	return strings.Join(s, "|")
}

func (p *c18Param) text() string {
	name := p.Name
	if name == "" && p.Key >= 0 {
		name = c18Names[p.Key]
	}
	if p.NoEq {
		return name
	}
	v := p.valueText()
	if p.Quoted {
		v = `"` + v + `"`
	}
	return name + "=" + v
}

func (c *c18Case) listText() string {
	var segs []string
	for i := range c.Params {
		if c.EmptySegAt == i+1 {
			segs = append(segs, "")
		}
		segs = append(segs, c.Params[i].text())
	}
	s := strings.Join(segs, ";")
	if c.TrailSemi {
		s += ";"
	}
	return s
}

func (c *c18Case) line() string {
	loc := ""
	if b, _ := hex.DecodeString(c.Loc); len(b) > 0 {
		for _, x := range b {
			loc += fmt.Sprintf("\\%03o", x)
		}
	}
	return fmt.Sprintf("%s%s,%s,%d,%s,%d,%s", c.Rtype, c.Owner, c.Target, c.TTL, loc, c.Prio, c.listText())
}

// ------------------------------------------------------------ the reference

// c18KV is a decoded parameter: key and its list of values in wire bytes.
type c18KV struct {
	Key  int
	Vals [][]byte
}

func (kv c18KV) String() string { return fmt.Sprintf("%d=%x", kv.Key, kv.Vals) }

// declared returns what a well-formed parameter declares.
func (p *c18Param) declared() c18KV {
	kv := c18KV{Key: p.Key}
	switch p.Key {
	case 0:
		m := append([]int(nil), p.Mand...)
		sort.Ints(m)
		for i, k := range m {
			if i > 0 && m[i-1] == k {
				continue
			}
			kv.Vals = append(kv.Vals, []byte{byte(k >> 8), byte(k)})
		}
	case 1:
		for _, h := range p.Alpn {
			b, _ := hex.DecodeString(h)
			kv.Vals = append(kv.Vals, b)
		}
	case 3:
		n := 0
		for _, d := range []byte(p.Port) {
			n = n*10 + int(d-'0')
		}
		kv.Vals = [][]byte{{byte(n >> 8), byte(n)}}
	case 4, 6:
		for _, a := range p.Addrs {
			b, _ := hex.DecodeString(a.Hex)
			kv.Vals = append(kv.Vals, b)
		}
	case 5:
		b, _ := hex.DecodeString(p.Ech)
		kv.Vals = [][]byte{b}
	}
	return kv
}

// c18Decode is the RFC 9460 (section 2.2, 7, 8) SvcParams wire decoder: keys
// strictly increasing, lengths exact, per-key value grammar, mandatory
// self-consistency.  cat classifies the first problem.
func c18Decode(b []byte) (out []c18KV, cat string, err error) {
	prev := -1
	for len(b) > 0 {
		if len(b) < 4 {
			return nil, "truncated", fmt.Errorf("%d trailing bytes", len(b))
		}
		key := int(binary.BigEndian.Uint16(b))
		n := int(binary.BigEndian.Uint16(b[2:]))
		b = b[4:]
		if n > len(b) {
			return nil, "length", fmt.Errorf("key %d: length %d exceeds the remaining %d bytes", key, n, len(b))
		}
		v := b[:n]
		b = b[n:]
		if key <= prev {
			return nil, "order", fmt.Errorf("key %d follows key %d: not strictly increasing", key, prev)
		}
		prev = key
		kv := c18KV{Key: key}
		switch key {
		case 0:
			if n == 0 || n%2 != 0 {
				return nil, "mandatory", fmt.Errorf("mandatory: length %d", n)
			}
			last := 0
			for i := 0; i < n; i += 2 {
				k := int(binary.BigEndian.Uint16(v[i:]))
				if k == 0 {
					return nil, "mandatory", fmt.Errorf("mandatory lists itself")
				}
				if k <= last {
					return nil, "mandatory", fmt.Errorf("mandatory keys not strictly increasing: %d after %d", k, last)
				}
				last = k
				kv.Vals = append(kv.Vals, v[i:i+2])
			}
		case 1:
			if n == 0 {
				return nil, "alpn", fmt.Errorf("alpn: empty value")
			}
			for i := 0; i < n; {
				l := int(v[i])
				i++
				if l == 0 {
					return nil, "alpn", fmt.Errorf("alpn: empty alpn-id")
				}
				if i+l > n {
					return nil, "alpn", fmt.Errorf("alpn: alpn-id of length %d overruns the value", l)
				}
				kv.Vals = append(kv.Vals, v[i:i+l])
				i += l
			}
		case 2:
			if n != 0 {
				return nil, "no-default-alpn", fmt.Errorf("no-default-alpn: length %d", n)
			}
		case 3:
			if n != 2 {
				return nil, "port", fmt.Errorf("port: length %d", n)
			}
			kv.Vals = [][]byte{v}
		case 4, 6:
			w := 4
			if key == 6 {
				w = 16
			}
			if n == 0 || n%w != 0 {
				return nil, "hint", fmt.Errorf("key %d: length %d is not a positive multiple of %d", key, n, w)
			}
			for i := 0; i < n; i += w {
				kv.Vals = append(kv.Vals, v[i:i+w])
			}
		case 5:
			kv.Vals = [][]byte{v}
		default:
			return nil, "unknown-key", fmt.Errorf("key %d is not one of the seven supported keys", key)
		}
		out = append(out, kv)
	}
	for _, kv := range out {
		if kv.Key != 0 {
			continue
		}
		for _, m := range kv.Vals {
			k := int(binary.BigEndian.Uint16(m))
			found := false
			for _, o := range out {
				found = found || o.Key == k
			}
			if !found {
				return nil, "mandatory", fmt.Errorf("mandatory key %d is absent", k)
			}
		}
	}
	return out, "", nil
}

// c18FromMiekg normalises miekg's decoded pairs.
func c18FromMiekg(vs []dns.SVCBKeyValue) ([]c18KV, error) {
	var out []c18KV
	for _, v := range vs {
		kv := c18KV{Key: int(v.Key())}
		switch x := v.(type) {
		case *dns.SVCBMandatory:
			for _, k := range x.Code {
				kv.Vals = append(kv.Vals, []byte{byte(k >> 8), byte(k)})
			}
		case *dns.SVCBAlpn:
			for _, a := range x.Alpn {
				kv.Vals = append(kv.Vals, []byte(a))
			}
		case *dns.SVCBNoDefaultAlpn:
		case *dns.SVCBPort:
			kv.Vals = [][]byte{{byte(x.Port >> 8), byte(x.Port)}}
		case *dns.SVCBIPv4Hint:
			for _, ip := range x.Hint {
				kv.Vals = append(kv.Vals, []byte(ip))
			}
		case *dns.SVCBIPv6Hint:
			for _, ip := range x.Hint {
				kv.Vals = append(kv.Vals, []byte(ip))
			}
		case *dns.SVCBECHConfig:
			kv.Vals = [][]byte{x.ECH}
		default:
			return nil, fmt.Errorf("miekg decoded key %d as %T", v.Key(), v)
		}
		out = append(out, kv)
	}
	return out, nil
}

func c18NameWire(name string) []byte {
	var w []byte
	for _, l := range strings.Split(name, ".") {
		if l != "" {
			w = append(w, byte(len(l)))
			w = append(w, l...)
		}
	}
	return append(w, 0)
}

func c18Presentation(name string) string {
	var ls []string
	for _, l := range strings.Split(name, ".") {
		if l != "" {
			ls = append(ls, l)
		}
	}
	return strings.Join(ls, ".") + "."
}

// c18Compare checks decoded parameters against the declaration.  Parameters
// marked Bad declare nothing: their key may or may not show up.
func c18Compare(c *c18Case, got []c18KV, who string) (string, string) {
	badKey := map[int]bool{}
	want := map[int][]string{}
	for i := range c.Params {
		p := &c.Params[i]
		if p.Bad {
			badKey[p.Key] = true
			continue
		}
		want[p.Key] = append(want[p.Key], p.declared().String())
	}
	seen := map[int]bool{}
	for _, kv := range got {
		seen[kv.Key] = true
		w, ok := want[kv.Key]
		if !ok {
			if badKey[kv.Key] {
				continue
			}
			return "undeclared-param", fmt.Sprintf("%s recovered %s which the list does not declare", who, kv)
		}
		if len(w) != 1 || w[0] != kv.String() {
			return "wire-value-mismatch", fmt.Sprintf("%s recovered %s, declared %v", who, kv, w)
		}
	}
	keys := make([]int, 0, len(want))
	for k := range want {
		keys = append(keys, k)
	}
	sort.Ints(keys)
	for _, k := range keys {
		if !seen[k] {
			key := "declared-param-missing"
			if c.EmptySegAt > 0 {
				key = c18KEmptySeg
			}
			return key, fmt.Sprintf("%s did not recover declared %v", who, want[k])
		}
	}
	return "", ""
}

func (c *c18Case) hasMappedV6() bool {
	for i := range c.Params {
		if c.Params[i].Key == 6 && !c.Params[i].Bad {
			for _, a := range c.Params[i].Addrs {
				b, _ := hex.DecodeString(a.Hex)
				if c18IsMapped(b) {
					return true
				}
			}
		}
	}
	return false
}

func (c *c18Case) hasBadAlpnLen() bool {
	for i := range c.Params {
		if c.Params[i].Key == 1 && c.Params[i].Raw == nil && !c.Params[i].NoEq {
			for _, h := range c.Params[i].Alpn {
				if len(h) == 0 || len(h) > 510 {
					return true
				}
			}
		}
	}
	return false
}

// c18One executes one case; it returns a shape key and message, or "".
// outcome is "accepted" or "rejected".
func c18One(c *c18Case) (key, msg, outcome string) {
	text := c.listText()
	var l svcb.ParamList
	derr := l.FromText([]byte(text))
	line := c.line()
	codec := new(dnsdata.Codec)
	rec, lerr := codec.DecodeLn([]byte(line))
	if (derr == nil) != (lerr == nil) {
		return "line-vs-direct-acceptance", fmt.Sprintf("list %q: FromText err=%v, data line %q err=%v", text, derr, line, lerr), ""
	}
	if k, strict := c18Strict[c.Kind]; strict {
		if derr == nil {
			return k, fmt.Sprintf("list %q (%s) was accepted", text, c.Kind), "accepted"
		}
		return "", "", "rejected"
	}
	if derr != nil {
		if c.Kind == "" {
			return "valid-list-rejected", fmt.Sprintf("list %q: %v", text, derr), "rejected"
		}
		return "", "", "rejected"
	}
	// accepted: oracle 1
	var wb bytes.Buffer
	if err := l.ToWire(&wb); err != nil {
		return "towire-error", fmt.Sprintf("list %q: ToWire: %v", text, err), "accepted"
	}
	wire := wb.Bytes()
	got, cat, err := c18Decode(wire)
	if err != nil {
		k := "wire-not-rfc9460-" + cat
		if cat == "alpn" && c.hasBadAlpnLen() {
			k = c18KAlpnLen
		}
		return k, fmt.Sprintf("list %q compiled to %x: %v", text, wire, err), "accepted"
	}
	if k, m := c18Compare(c, got, "the RFC 9460 decoder"); k != "" {
		return k, fmt.Sprintf("list %q compiled to %x: %s", text, wire, m), "accepted"
	}
	// the data line
	mr, err := rec.MarshalMap()
	if err != nil || len(mr) != 1 {
		return "line-marshalmap", fmt.Sprintf("line %q: %v, %d records", line, err, len(mr)), "accepted"
	}
	loc, _ := hex.DecodeString(c.Loc)
	tagged := len(loc) == 2 && (loc[0] != 0 || loc[1] != 0)
	wild := strings.HasPrefix(c.Owner, "*.")
	owner := strings.ToLower(strings.TrimPrefix(c.Owner, "*."))
	wantKey := []byte{0, 0}
	if tagged {
		wantKey = append([]byte(nil), loc...)
	}
	wantKey = append(wantKey, c18NameWire(owner)...)
	if !bytes.Equal(mr[0].Key, wantKey) {
		return "line-key", fmt.Sprintf("line %q: key %x, want %x", line, mr[0].Key, wantKey), "accepted"
	}
	v := mr[0].Value
	wantType := uint16(64)
	if c.Rtype == "H" {
		wantType = 65
	}
	var hdr []byte
	hdr = append(hdr, byte(wantType>>8), byte(wantType))
	switch {
	case tagged && wild:
		hdr = append(append(hdr, '+'), loc...)
	case tagged:
		hdr = append(append(hdr, '>'), loc...)
	case wild:
		hdr = append(hdr, '*')
	default:
		hdr = append(hdr, '=')
	}
	hdr = append(hdr, byte(c.TTL>>24), byte(c.TTL>>16), byte(c.TTL>>8), byte(c.TTL))
	hdr = append(hdr, 0, 0, 0, 0, 0, 0, 0, 0)
	if !bytes.HasPrefix(v, hdr) {
		return "line-header", fmt.Sprintf("line %q: value %x does not start with %x", line, v, hdr), "accepted"
	}
	rdata := v[len(hdr):]
	tw := c18NameWire(c.Target)
	wantR := append([]byte{byte(c.Prio >> 8), byte(c.Prio)}, tw...)
	if !bytes.HasPrefix(rdata, wantR) {
		return "line-priority-target", fmt.Sprintf("line %q: RDATA %x does not start with priority+target %x", line, rdata, wantR), "accepted"
	}
	if !bytes.Equal(rdata[len(wantR):], wire) {
		return "line-params-differ", fmt.Sprintf("line %q: params %x, ParamList.ToWire %x", line, rdata[len(wantR):], wire), "accepted"
	}
	// oracle 2: miekg/dns on the full record
	msgb := c18NameWire(owner)
	msgb = append(msgb, byte(wantType>>8), byte(wantType), 0, 1)
	msgb = append(msgb, byte(c.TTL>>24), byte(c.TTL>>16), byte(c.TTL>>8), byte(c.TTL))
	msgb = append(msgb, byte(len(rdata)>>8), byte(len(rdata)))
	msgb = append(msgb, rdata...)
	rr, off, uerr := dns.UnpackRR(msgb, 0)
	if uerr != nil {
		if !(c.hasMappedV6() && strings.Contains(uerr.Error(), "expected ipv6, got ipv4")) {
			return "miekg-unpack", fmt.Sprintf("line %q: record %x: miekg/dns: %v", line, msgb, uerr), "accepted"
		}
		// miekg refuses IPv4-mapped addresses in ipv6hint (its own policy,
		// not RFC 9460): oracle 2 is not applicable to this case.
		kit.Class("oracle2-n/a-v4mapped")
	} else {
		if off != len(msgb) {
			return "miekg-unpack", fmt.Sprintf("line %q: miekg/dns consumed %d of %d bytes", line, off, len(msgb)), "accepted"
		}
		var s *dns.SVCB
		switch x := rr.(type) {
		case *dns.SVCB:
			if c.Rtype != "B" {
				return "miekg-type", fmt.Sprintf("line %q decoded as %T", line, rr), "accepted"
			}
			s = x
		case *dns.HTTPS:
			if c.Rtype != "H" {
				return "miekg-type", fmt.Sprintf("line %q decoded as %T", line, rr), "accepted"
			}
			s = &x.SVCB
		default:
			return "miekg-type", fmt.Sprintf("line %q decoded as %T", line, rr), "accepted"
		}
		if s.Priority != c.Prio || s.Target != c18Presentation(c.Target) || s.Hdr.Ttl != c.TTL || s.Hdr.Name != c18Presentation(owner) {
			return "miekg-fixed-fields", fmt.Sprintf("line %q: miekg/dns sees %s", line, rr), "accepted"
		}
		mg, err := c18FromMiekg(s.Value)
		if err != nil {
			return "miekg-unpack", fmt.Sprintf("line %q: %v", line, err), "accepted"
		}
		if k, m := c18Compare(c, mg, "miekg/dns"); k != "" {
			return "miekg-" + k, fmt.Sprintf("line %q: %s", line, m), "accepted"
		}
	}
	// oracle 3: text round trip of the stored parameters
	var tb bytes.Buffer
	l.ToText(&tb)
	var l2 svcb.ParamList
	if err := l2.FromText(tb.Bytes()); err != nil {
		k := "totext-reparse-rejected"
		if c.hasMappedV6() {
			k = c18KMapped
		}
		return k, fmt.Sprintf("list %q prints as %q which is rejected: %v", text, tb.Bytes(), err), "accepted"
	}
	var wb2 bytes.Buffer
	_ = l2.ToWire(&wb2)
	if !bytes.Equal(wb2.Bytes(), wire) {
		return "totext-reparse-wire-differs", fmt.Sprintf("list %q prints as %q: wire %x, originally %x", text, tb.Bytes(), wb2.Bytes(), wire), "accepted"
	}
	// the same through the record's text form (RDATA only: the header and
	// the owner are C09's subject)
	tm, ok := rec.(encoding.TextMarshaler)
	if !ok {
		return "marshaltext-missing", fmt.Sprintf("%T has no MarshalText", rec), "accepted"
	}
	lt, err := tm.MarshalText()
	if err != nil {
		return "marshaltext-error", fmt.Sprintf("line %q: %v", line, err), "accepted"
	}
	mr2, err := new(dnsdata.Codec).ConvertLn(lt)
	if err != nil || len(mr2) != 1 {
		return "marshaltext-reparse-rejected", fmt.Sprintf("line %q prints as %q: %v", line, lt, err), "accepted"
	}
	v2 := mr2[0].Value
	if len(v2) < len(hdr) || !bytes.Equal(v2[len(v2)-len(rdata):], rdata) || len(v2) != len(v) {
		return "marshaltext-reparse-rdata-differs", fmt.Sprintf("line %q prints as %q: value %x, originally %x", line, lt, v2, v), "accepted"
	}
	return "", "", "accepted"
}

// kindHolds tells whether a case of one of the three must-reject kinds still
// has the defining defect (used by the minimiser only).
func (c *c18Case) kindHolds() bool {
	if _, strict := c18Strict[c.Kind]; !strict {
		return true
	}
	i := c18Find(c.Params, 0)
	if i < 0 {
		return false
	}
	seen := map[int]bool{}
	for _, m := range c.Params[i].Mand {
		switch {
		case c.Kind == "mand-self" && m == 0:
			return true
		case c.Kind == "mand-missing" && m != 0 && c18Find(c.Params, m) < 0:
			return true
		case c.Kind == "mand-repeat" && seen[m]:
			return true
		}
		seen[m] = true
	}
	return false
}

// c18Minimise greedily simplifies a failing case while it keeps failing with
// the same shape key (deterministic; complements rapid's own shrinking).
func c18Minimise(c c18Case, key string) c18Case {
	still := func(x c18Case) (ok bool) {
		defer func() {
			if recover() != nil {
				ok = false
			}
		}()
		if !x.kindHolds() {
			return false
		}
		k, _, _ := c18One(&x)
		return k == key
	}
	clone := func(x c18Case) c18Case {
		y := x
		y.Params = make([]c18Param, len(x.Params))
		for i, p := range x.Params {
			p.Mand = append([]int(nil), p.Mand...)
			p.Alpn = append([]string(nil), p.Alpn...)
			p.Addrs = append([]c18Addr(nil), p.Addrs...)
			y.Params[i] = p
		}
		return y
	}
	try := func(f func(x *c18Case) bool) bool {
		x := clone(c)
		if !f(&x) || !still(x) {
			return false
		}
		c = x
		return true
	}
	for changed := true; changed; {
		changed = false
		for i := 0; i < len(c.Params); i++ {
			if try(func(x *c18Case) bool {
				x.Params = append(x.Params[:i], x.Params[i+1:]...)
				if x.EmptySegAt > i+1 {
					x.EmptySegAt--
				}
				return true
			}) {
				changed = true
				i--
			}
		}
		for i := range c.Params {
			for _, f := range []func(p *c18Param) bool{
				func(p *c18Param) bool { ok := len(p.Mand) > 1; p.Mand = p.Mand[:len(p.Mand)-btoi(ok)]; return ok },
				func(p *c18Param) bool { ok := len(p.Mand) > 1; p.Mand = p.Mand[btoi(ok):]; return ok },
				func(p *c18Param) bool { ok := len(p.Alpn) > 1; p.Alpn = p.Alpn[:len(p.Alpn)-btoi(ok)]; return ok },
				func(p *c18Param) bool { ok := len(p.Alpn) > 1; p.Alpn = p.Alpn[btoi(ok):]; return ok },
				func(p *c18Param) bool { ok := len(p.Addrs) > 1; p.Addrs = p.Addrs[:len(p.Addrs)-btoi(ok)]; return ok },
				func(p *c18Param) bool { ok := len(p.Addrs) > 1; p.Addrs = p.Addrs[btoi(ok):]; return ok },
				func(p *c18Param) bool { ok := p.Quoted; p.Quoted = false; return ok },
				func(p *c18Param) bool {
					ok := false
					for j := range p.Alpn {
						if len(p.Alpn[j]) > 2 && len(p.Alpn[j]) <= 510 {
							p.Alpn[j], ok = "68", true
						}
					}
					return ok
				},
				func(p *c18Param) bool {
					ok := false
					for j := range p.Addrs {
						if p.Addrs[j].Form != 0 {
							p.Addrs[j].Form, ok = 0, true
						}
					}
					return ok
				},
				func(p *c18Param) bool { ok := len(p.Ech) > 2; p.Ech = p.Ech[:2*btoi(len(p.Ech) >= 2)]; return ok },
			} {
				if try(func(x *c18Case) bool { return f(&x.Params[i]) }) {
					changed = true
				}
			}
		}
		for _, f := range []func(x *c18Case) bool{
			func(x *c18Case) bool { ok := x.TrailSemi; x.TrailSemi = false; return ok },
			func(x *c18Case) bool { ok := x.Owner != "example.com"; x.Owner = "example.com"; return ok },
			func(x *c18Case) bool { ok := x.Target != "."; x.Target = "."; return ok },
			func(x *c18Case) bool { ok := x.Loc != ""; x.Loc = ""; return ok },
			func(x *c18Case) bool { ok := x.TTL != 300; x.TTL = 300; return ok },
			func(x *c18Case) bool { ok := x.Prio != 1; x.Prio = 1; return ok },
		} {
			if try(f) {
				changed = true
			}
		}
	}
	c.Text = c.listText()
	return c
}

func btoi(b bool) int {
	if b {
		return 1
	}
	return 0
}

// --------------------------------------------------------------- generators

var c18V6Pool = []string{
	"00000000000000000000000000000000", // ::
	"00000000000000000000000000000001", // ::1
	"00000000000000000000ffff01020304", // ::ffff:1.2.3.4 (IPv4-mapped)
	"00000000000000000000ffff00000000", // ::ffff:0.0.0.0
	"00000000000000000000ffffc6336464", // ::ffff:198.51.100.100
	"00000000000000000000000001020304", // ::1.2.3.4 (IPv4-compatible)
	"0000000000000000000000ff01020304", // ::ff:102:304 (near miss of mapped)
	"0064ff9b000000000000000001020304", // 64:ff9b::1.2.3.4
	"20010db8000000000000000000000001", // 2001:db8::1
	"20010db8000000000000000000530001", // 2001:db8::53:1
	"20010db8000000000001000000000001", // two zero runs
	"20010db8000000010000000000000001",
	"fe800000000000000000000000000001",
	"ff0200000000000000000000000000fb",
	"ffffffffffffffffffffffffffffffff",
	"00010002000300040005000600070008",
	"00010000000300040005000600070000",
	"00000002000300040005000600070000",
}

var c18V4Pool = []string{"00000000", "ffffffff", "7f000001", "c0000201", "0a000001", "01020304", "c6336464", "e00000fb", "00000001", "01000000"}

var c18AlpnAlphabet = []byte{'h', '2', '3', '-', '/', '.', '1', '=', ':', '\\', ' ', 0, 0x80, 0xff, 'A', '\'', '*', '+'}

func c18GenAlpnID(t *rapid.T, lens []int) string {
	n := rapid.SampledFrom(lens).Draw(t, "idlen")
	pat := rapid.SliceOfN(rapid.SampledFrom(c18AlpnAlphabet), 1, 4).Draw(t, "idpat")
	b := make([]byte, n)
	for i := range b {
		b[i] = pat[i%len(pat)]
	}
	return hex.EncodeToString(b)
}

var c18IDLens = []int{1, 1, 1, 2, 2, 2, 2, 3, 5, 8, 8, 63, 64, 127, 128, 254, 255, 255}

func c18GenAddr(t *rapid.T, key int, noMapped bool) c18Addr {
	if key == 4 {
		var h string
		if rapid.IntRange(0, 3).Draw(t, "v4rand") == 0 {
			h = hex.EncodeToString(rapid.SliceOfN(rapid.Byte(), 4, 4).Draw(t, "v4"))
		} else {
			h = rapid.SampledFrom(c18V4Pool).Draw(t, "v4")
		}
		return c18Addr{Hex: h, Form: rapid.SampledFrom([]int{0, 0, 0, 0, 1, 2}).Draw(t, "v4form")}
	}
	var h string
	if rapid.IntRange(0, 3).Draw(t, "v6rand") == 0 {
		// random groups from a tiny alphabet so that zero runs of every length and position happen
		gs := rapid.SliceOfN(rapid.SampledFrom([]string{"0000", "0000", "0001", "00ff", "ffff", "0db8", "a000"}), 8, 8).Draw(t, "v6")
		h = strings.Join(gs, "")
	} else {
		h = strings.ReplaceAll(rapid.SampledFrom(c18V6Pool).Draw(t, "v6"), " ", "")
	}
	b, _ := hex.DecodeString(h)
	if noMapped && c18IsMapped(b) {
		kit.Excluded(c18KMapped)
		b[10] = 0
		h = hex.EncodeToString(b)
	}
	return c18Addr{Hex: h, Form: rapid.IntRange(0, 4).Draw(t, "v6form")}
}

var c18Ports = []string{"0", "1", "53", "80", "443", "8080", "8443", "65535", "65534", "256", "255", "0443", "00", "00000", "000065535", "32768"}

// c18GenParam draws a well-formed parameter for key; others are the other
// keys of the list (for mandatory).
func c18GenParam(t *rapid.T, key int, others []int, noMapped bool) c18Param {
	p := c18Param{Key: key, Quoted: rapid.Bool().Draw(t, "quoted")}
	switch key {
	case 0:
		perm := rapid.Permutation(others).Draw(t, "mandperm")
		n := rapid.IntRange(1, len(perm)).Draw(t, "mandn")
		p.Mand = append([]int(nil), perm[:n]...)
	case 1:
		n := rapid.SampledFrom([]int{1, 1, 2, 2, 3, 4}).Draw(t, "nalpn")
		for i := 0; i < n; i++ {
			p.Alpn = append(p.Alpn, c18GenAlpnID(t, c18IDLens))
		}
	case 3:
		if rapid.IntRange(0, 3).Draw(t, "portrand") == 0 {
			p.Port = strconv.Itoa(int(rapid.Uint16().Draw(t, "port")))
		} else {
			p.Port = rapid.SampledFrom(c18Ports).Draw(t, "port")
		}
	case 4, 6:
		n := rapid.SampledFrom([]int{1, 1, 2, 2, 3, 4}).Draw(t, "naddr")
		for i := 0; i < n; i++ {
			p.Addrs = append(p.Addrs, c18GenAddr(t, key, noMapped))
		}
	case 5:
		n := rapid.SampledFrom([]int{0, 1, 2, 3, 4, 7, 16, 31, 32, 63, 64}).Draw(t, "echlen")
		p.Ech = hex.EncodeToString(rapid.SliceOfN(rapid.Byte(), n, n).Draw(t, "ech"))
		if n == 0 {
			p.Quoted = true // `echconfig=` (no quotes) is the documented empty-value rejection
		}
	}
	return p
}

func c18Others(ps []c18Param) []int {
	var o []int
	for _, p := range ps {
		if p.Key > 0 && !p.Bad {
			dup := false
			for _, k := range o {
				dup = dup || k == p.Key
			}
			if !dup {
				o = append(o, p.Key)
			}
		}
	}
	sort.Ints(o)
	return o
}

func c18Find(ps []c18Param, key int) int {
	for i := range ps {
		if ps[i].Key == key {
			return i
		}
	}
	return -1
}

func c18Insert(t *rapid.T, ps []c18Param, p c18Param) ([]c18Param, int) {
	i := rapid.IntRange(0, len(ps)).Draw(t, "inspos")
	ps = append(ps, c18Param{})
	copy(ps[i+1:], ps[i:])
	ps[i] = p
	return ps, i
}

var c18Kinds = []string{"mand-missing", "mand-self", "mand-repeat", "dup-key", "unknown-key", "port-range", "bad-addr", "bad-b64", "empty-value", "no-eq", "alpn-empty-id", "alpn-long-id", "empty-segment"}

var (
	c18BadPorts = []string{"65536", "65537", "99999", "4294967296", "18446744073709551616", "-1", "+80", "1b", "0x50", " 80", "80 ", "8 0", "1e3", "٣"}
	c18BadV4    = []string{"256.1.1.1", "1.2.3", "1.2.3.4.5", "01.2.3.4", "2001:db8::1", "a.b.c.d", "", "1.2.3.4 ", "::", "1.2.3.-4", "::ffff:1.2.3.256"}
	c18BadV6    = []string{"1.2.3.4", ":::", "2001:db8::1::2", "g::1", "1:2:3:4:5:6:7:8:9", "fe80::1%eth0", "", "::1 ", "12345::1", "1:2:3:4:5:6:7", "::ffff:1.2.3", "[::1]", ":"}
	c18BadB64   = []string{"***bad***", "dHJhZmZpYw", "dHJhZmZpYw=", "dHJh_mZp", "dHJh-mZp", "=", "dHJ hZmZp", "dA", "dA=", "dA===", "dHJhZmZpYw==dHJh"}
	c18Unknown  = []string{"dohpath", "key7", "key65535", "key1", "ALPN", "Port", "ech", "foo", "", "alpn ", " alpn", "ipv5hint", "mandatory2", "no_default_alpn"}
)

func c18GenCase(t *rapid.T, known map[string]bool) c18Case {
	var c c18Case
	noMapped := known[c18KMapped]
	// which keys, in which order
	var keys []int
	for k := 0; k < 7; k++ {
		if rapid.Bool().Draw(t, "has-"+c18Names[k]) {
			keys = append(keys, k)
		}
	}
	if len(keys) == 1 && keys[0] == 0 {
		keys = append(keys, rapid.IntRange(1, 6).Draw(t, "mand-needs"))
	}
	if rapid.IntRange(0, 5).Draw(t, "sorted") != 0 {
		keys = rapid.Permutation(keys).Draw(t, "order")
	}
	var others []int
	for _, k := range keys {
		if k != 0 {
			others = append(others, k)
		}
	}
	sort.Ints(others)
	for _, k := range keys {
		c.Params = append(c.Params, c18GenParam(t, k, others, noMapped))
	}
	c.TrailSemi = rapid.IntRange(0, 7).Draw(t, "trail") == 0

	// malformed variants, by construction on top of the valid list
	if rapid.IntRange(0, 9).Draw(t, "malform") < 4 {
		kind := rapid.SampledFrom(c18Kinds).Draw(t, "kind")
		if known[c18KAlpnLen] && strings.HasPrefix(kind, "alpn-") {
			kit.Excluded(c18KAlpnLen)
			kind = "dup-key"
		}
		if known[c18KEmptySeg] && kind == "empty-segment" {
			kit.Excluded(c18KEmptySeg)
			kind = "unknown-key"
		}
		c.Kind = kind
		c18Malform(t, &c, noMapped)
	}

	c.Rtype = rapid.SampledFrom([]string{"B", "H"}).Draw(t, "rtype")
	c.Owner = rapid.SampledFrom([]string{"example.com", "a.example.com", "*.example.com", "_8443._https.example.com", "Example.COM", "*.a.Example.com", "_dns.resolver.arpa", "com", "x"}).Draw(t, "owner")
	c.Target = rapid.SampledFrom([]string{".", "", "svc.example.net", "svc.example.net.", "Svc.Example.NET", "a.b.c.d.example", "x"}).Draw(t, "target")
	c.TTL = rapid.SampledFrom([]uint32{0, 1, 300, 86400, 1<<31 - 1, 1<<32 - 1}).Draw(t, "ttl")
	c.Loc = rapid.SampledFrom([]string{"", "", "", "0001", "4141", "ff00", "0000", "2c3a"}).Draw(t, "loc")
	c.Prio = rapid.SampledFrom([]uint16{0, 1, 1, 2, 16, 256, 65535}).Draw(t, "prio")
	c.Text = c.listText()
	return c
}

func c18Malform(t *rapid.T, c *c18Case, noMapped bool) {
	others := c18Others(c.Params)
	ensureMand := func() int {
		i := c18Find(c.Params, 0)
		if i < 0 {
			c.Params, i = c18Insert(t, c.Params, c18Param{Key: 0, Quoted: rapid.Bool().Draw(t, "mquoted")})
		}
		return i
	}
	subset := func(min int) []int {
		if len(others) == 0 {
			return nil
		}
		perm := rapid.Permutation(others).Draw(t, "msub")
		if min > len(perm) {
			min = len(perm)
		}
		return append([]int(nil), perm[:rapid.IntRange(min, len(perm)).Draw(t, "msubn")]...)
	}
	bad := func(p c18Param) {
		p.Bad = true
		if i := c18Find(c.Params, p.Key); i >= 0 && p.Key >= 0 {
			c.Params[i] = p
		} else {
			c.Params, _ = c18Insert(t, c.Params, p)
		}
	}
	raw := func(s string) *string { return &s }
	switch c.Kind {
	case "mand-missing":
		var absent []int
		for k := 1; k <= 6; k++ {
			if c18Find(c.Params, k) < 0 {
				absent = append(absent, k)
			}
		}
		var m int
		if len(absent) == 0 {
			m = rapid.IntRange(1, 6).Draw(t, "drop")
			i := c18Find(c.Params, m)
			c.Params = append(c.Params[:i], c.Params[i+1:]...)
			others = c18Others(c.Params)
		} else {
			m = rapid.SampledFrom(absent).Draw(t, "absent")
		}
		i := ensureMand()
		ms := append(subset(0), m)
		c.Params[i].Mand = rapid.Permutation(ms).Draw(t, "mperm")
	case "mand-self":
		i := ensureMand()
		ms := append(subset(0), 0)
		c.Params[i].Mand = rapid.Permutation(ms).Draw(t, "mperm")
	case "mand-repeat":
		if len(others) == 0 {
			k := rapid.IntRange(1, 6).Draw(t, "addkey")
			c.Params, _ = c18Insert(t, c.Params, c18GenParam(t, k, nil, noMapped))
			others = []int{k}
		}
		i := ensureMand()
		ms := subset(1)
		ms = append(ms, rapid.SampledFrom(ms).Draw(t, "rep"))
		c.Params[i].Mand = rapid.Permutation(ms).Draw(t, "mperm")
	case "dup-key":
		if len(c.Params) == 0 {
			c.Params = append(c.Params, c18GenParam(t, rapid.IntRange(1, 6).Draw(t, "addkey"), nil, noMapped))
		}
		src := c.Params[rapid.IntRange(0, len(c.Params)-1).Draw(t, "dupsrc")]
		var p c18Param
		if rapid.Bool().Draw(t, "dupsame") || src.Key == 0 {
			p = src
		} else {
			p = c18GenParam(t, src.Key, others, noMapped)
		}
		c.Params, _ = c18Insert(t, c.Params, p)
	case "unknown-key":
		p := c18Param{Key: -1, Name: rapid.SampledFrom(c18Unknown).Draw(t, "uname"), Raw: raw(rapid.SampledFrom([]string{"x", "1", "", "h2", "/dns-query{?dns}"}).Draw(t, "uval")), Bad: true, Quoted: rapid.Bool().Draw(t, "uq")}
		if p.Name == "" && *p.Raw == "" && !p.Quoted {
			*p.Raw = "x" // "=" alone; an entirely empty segment is the empty-segment kind
		}
		c.Params, _ = c18Insert(t, c.Params, p)
	case "port-range":
		bad(c18Param{Key: 3, Raw: raw(rapid.SampledFrom(c18BadPorts).Draw(t, "badport")), Quoted: rapid.Bool().Draw(t, "q")})
	case "bad-addr":
		key := rapid.SampledFrom([]int{4, 6}).Draw(t, "addrkey")
		pool := c18BadV4
		if key == 6 {
			pool = c18BadV6
		}
		var parts []string
		n := rapid.IntRange(0, 2).Draw(t, "ngood")
		for i := 0; i < n; i++ {
			parts = append(parts, c18AddrText(key, c18GenAddr(t, key, noMapped)))
		}
		at := rapid.IntRange(0, len(parts)).Draw(t, "badat")
		parts = append(parts[:at], append([]string{rapid.SampledFrom(pool).Draw(t, "badaddr")}, parts[at:]...)...)
		q := rapid.Bool().Draw(t, "q")
		if len(parts) == 1 && parts[0] == "" {
			q = true
		}
		bad(c18Param{Key: key, Raw: raw(strings.Join(parts, "|")), Quoted: q})
	case "bad-b64":
		bad(c18Param{Key: 5, Raw: raw(rapid.SampledFrom(c18BadB64).Draw(t, "badb64")), Quoted: rapid.Bool().Draw(t, "q")})
	case "empty-value":
		key := rapid.IntRange(0, 6).Draw(t, "evkey")
		if key == 2 {
			bad(c18Param{Key: 2, Raw: raw(rapid.SampledFrom([]string{"h2", "0", " ", "true"}).Draw(t, "ndaval")), Quoted: rapid.Bool().Draw(t, "q")})
		} else {
			bad(c18Param{Key: key, Raw: raw("")})
		}
	case "no-eq":
		key := rapid.IntRange(0, 6).Draw(t, "nekey")
		bad(c18Param{Key: key, NoEq: true})
	case "alpn-empty-id", "alpn-long-id":
		p := c18GenParam(t, 1, nil, noMapped)
		var id string
		if c.Kind == "alpn-long-id" {
			id = c18GenAlpnID(t, []int{256, 256, 257, 300, 511, 512, 513})
		}
		at := rapid.IntRange(0, len(p.Alpn)).Draw(t, "badat")
		if rapid.IntRange(0, 3).Draw(t, "only") == 0 {
			p.Alpn, at = nil, 0
		}
		p.Alpn = append(p.Alpn[:at], append([]string{id}, p.Alpn[at:]...)...)
		if len(p.Alpn) == 1 && id == "" {
			p.Quoted = true // alpn="" ; without quotes it is the documented empty-value rejection
		}
		bad(p)
	case "empty-segment":
		if len(c.Params) == 0 {
			c.Params = append(c.Params, c18GenParam(t, rapid.IntRange(1, 6).Draw(t, "addkey"), nil, noMapped))
		}
		c.EmptySegAt = rapid.IntRange(1, len(c.Params)).Draw(t, "emptyat")
	}
}

// ---------------------------------------------------------- classification

func (c *c18Case) orderSig() (sig string, unsorted, multi bool) {
	var ks []string
	last := -2
	for _, p := range c.Params {
		ks = append(ks, strconv.Itoa(p.Key))
		if p.Key < last {
			unsorted = true
		}
		last = p.Key
		if len(p.Mand) > 1 || len(p.Alpn) > 1 || len(p.Addrs) > 1 {
			multi = true
		}
	}
	return strings.Join(ks, ","), unsorted, multi
}

func (c *c18Case) valueSig() string {
	var s []string
	for _, p := range c.Params {
		x := fmt.Sprintf("%d", p.Key)
		if p.Quoted {
			x += "q"
		}
		switch p.Key {
		case 0:
			x += fmt.Sprint(p.Mand)
		case 1:
			for _, h := range p.Alpn {
				x += "/" + sizeClass(len(h)/2)
			}
		case 3:
			x += ":" + p.Port
		case 4, 6:
			for _, a := range p.Addrs {
				b, _ := hex.DecodeString(a.Hex)
				x += fmt.Sprintf("/f%d", a.Form)
				if c18IsMapped(b) {
					x += "m"
				}
			}
		case 5:
			x += "/" + sizeClass(len(p.Ech)/2)
		}
		if p.Raw != nil {
			x += "!" + *p.Raw
		}
		s = append(s, x)
	}
	return strings.Join(s, ";")
}

func c18Classify(c *c18Case, outcome string) {
	sig, unsorted, multi := c.orderSig()
	kit.Class(fmt.Sprintf("nkeys-%d", len(c.Params)))
	if c.Kind == "" {
		kit.Class("valid-" + outcome)
	} else {
		kit.Class("kind-" + c.Kind + "-" + outcome)
	}
	if unsorted {
		kit.Class("order-unsorted")
	}
	if multi {
		kit.Class("multi-value")
	}
	if strings.HasPrefix(c.Owner, "*.") {
		kit.Class("owner-wildcard")
	}
	if c.Target == "." || c.Target == "" {
		kit.Class("target-root")
	}
	if c.Loc != "" && c.Loc != "0000" {
		kit.Class("located")
	}
	if c.hasMappedV6() {
		kit.Class("ipv6hint-v4mapped")
	}
	for _, p := range c.Params {
		if p.Bad {
			continue
		}
		switch p.Key {
		case 3:
			if len(p.Port) > 1 && p.Port[0] == '0' {
				kit.Class("port-leading-zero")
			}
			if p.Port == "65535" || p.Port == "0" {
				kit.Class("port-boundary")
			}
		case 1:
			for _, h := range p.Alpn {
				if len(h) == 510 {
					kit.Class("alpn-id-255")
				}
			}
		case 4, 6:
			for _, a := range p.Addrs {
				kit.Class(fmt.Sprintf("addr-key%d-form%d", p.Key, a.Form))
			}
		case 5:
			if p.Ech == "" {
				kit.Class("ech-empty")
			}
		}
	}
	if unsorted || multi || outcome == "rejected" {
		kit.NonTrivial(sig + "|" + c.Kind + "|" + c.valueSig())
	}
}

// ------------------------------------------------------- enumerated parts

func c18Fixed(key int, others []int, quoted bool) c18Param {
	p := c18Param{Key: key, Quoted: quoted}
	switch key {
	case 0:
		p.Mand = append([]int(nil), others...)
	case 1:
		p.Alpn = []string{hex.EncodeToString([]byte("h3")), hex.EncodeToString([]byte("h2"))}
	case 3:
		p.Port = "8443"
	case 4:
		p.Addrs = []c18Addr{{Hex: "c0000201"}, {Hex: "01020304"}}
	case 5:
		p.Ech = hex.EncodeToString([]byte("traffic"))
	case 6:
		p.Addrs = []c18Addr{{Hex: "20010db8000000000000000000000001"}}
	}
	return p
}

// c18Enumerate runs (a) every ordered selection of distinct keys and (b) the
// acceptance table of mandatory against every set of present keys.
func c18Enumerate(t *testing.T) {
	shard, n := kit.Shard(), kit.NShards()
	var cnt, nt int64
	idx := 0
	run := func(c c18Case) {
		idx++
		if idx%n != shard {
			return
		}
		c.Text = c.listText()
		kit.Case(c)
		key, msg, outcome := c18One(&c)
		if key != "" {
			kit.Fail(t, "C18", key, c, "%s", msg)
		}
		cnt++
		_, unsorted, multi := c.orderSig()
		if unsorted || multi || outcome == "rejected" {
			nt++
		}
	}
	// (a)
	var rec func(seq []int, used int)
	rec = func(seq []int, used int) {
		var others []int
		for _, k := range seq {
			if k != 0 {
				others = append(others, k)
			}
		}
		sort.Ints(others)
		c := c18Case{Rtype: "BH"[idx%2 : idx%2+1], Owner: "example.com", Target: "svc.example.net", TTL: 300, Prio: 1}
		for _, k := range seq {
			o := others
			if k == 0 && len(o) == 0 {
				o = []int{1}
				c.Kind = "mand-missing"
			}
			c.Params = append(c.Params, c18Fixed(k, o, (idx+k)%2 == 0))
		}
		run(c)
		for k := 0; k < 7; k++ {
			if used&(1<<k) == 0 {
				rec(append(seq, k), used|1<<k)
			}
		}
	}
	rec(nil, 0)
	kit.ClassN("enumerated-key-orders", cnt)
	a := cnt
	// (b)
	for s := 0; s < 64; s++ { // bit i-1 set: key i present
		for m := 1; m < 128; m++ { // bit i set: mandatory names key i
			c := c18Case{Rtype: "H", Owner: "*.example.com", Target: ".", TTL: 60, Prio: 2}
			var ms []int
			for k := 6; k >= 0; k-- { // written in decreasing order
				if m&(1<<k) != 0 {
					ms = append(ms, k)
				}
			}
			switch {
			case m&1 != 0:
				c.Kind = "mand-self"
			case (m>>1)&^s != 0:
				c.Kind = "mand-missing"
			}
			for k := 1; k <= 6; k++ {
				if s&(1<<(k-1)) != 0 {
					c.Params = append(c.Params, c18Fixed(k, nil, false))
				}
			}
			mp := c18Param{Key: 0, Mand: ms, Quoted: m%2 == 0}
			if (s+m)%2 == 0 {
				c.Params = append([]c18Param{mp}, c.Params...)
			} else {
				c.Params = append(c.Params, mp)
			}
			run(c)
		}
	}
	kit.ClassN("enumerated-mandatory-table", cnt-a)
	kit.EvalN(cnt)
	kit.NonTrivialDistinct(nt)
	kit.SetExhaustive()
}

// ---------------------------------------------------------------- token soup

// The soup phase feeds unstructured text (tokens of the syntax glued at
// random).  There is no declaration to compare with; what is decided is: no
// panic; an accepted text compiles to conformant RFC 9460 wire data on which
// miekg/dns agrees with the harness decoder; the data line agrees with
// FromText; the printed form parses back to the same wire data.

var c18Tokens = []string{
	"mandatory", "alpn", "no-default-alpn", "port", "ipv4hint", "echconfig", "ipv6hint",
	"=", "=", "=", "|", "|", "\"", "\"", ";", "h2", "h3", "http/1.1", "443", "0", "65535", "65536", "1.2.3.4", "::1", "::ffff:1.2.3.4", "2001:db8::1",
	"dHJhZmZpYw==", "AA==", "", " ", "key7", "ech", "-", ":", ".", "1", "a",
}

var c18SoupParams = []string{
	"mandatory=alpn", "mandatory=port|alpn", "mandatory=ipv6hint|ipv4hint", "alpn=h2", "alpn=\"h3|h2\"", "no-default-alpn=", "no-default-alpn=\"\"",
	"port=443", "port=\"0\"", "ipv4hint=1.2.3.4", "ipv4hint=1.2.3.4|5.6.7.8", "echconfig=dHJhZmZpYw==", "echconfig=\"\"", "ipv6hint=::1", "ipv6hint=2001:db8::1|::",
	"ipv6hint=::ffff:1.2.3.4", "alpn=\"\"", "mandatory=mandatory", "mandatory=port|port",
}

func c18GenSoup(t *rapid.T) string {
	seg := rapid.OneOf(
		rapid.SampledFrom(c18SoupParams),
		rapid.SampledFrom(c18SoupParams),
		rapid.Map(rapid.SliceOfN(rapid.SampledFrom(c18Tokens), 0, 6), func(ts []string) string { return strings.Join(ts, "") }),
	)
	return strings.Join(rapid.SliceOfN(seg, 0, 6).Draw(t, "segs"), ";")
}

func c18Soup(text string, known map[string]bool) (key, msg, outcome string) {
	var l svcb.ParamList
	derr := l.FromText([]byte(text))
	line := "B.,.,60,,1," + text
	mr, lerr := new(dnsdata.Codec).ConvertLn([]byte(line))
	if (derr == nil) != (lerr == nil) {
		return "line-vs-direct-acceptance", fmt.Sprintf("list %q: FromText err=%v, data line err=%v", text, derr, lerr), ""
	}
	if derr != nil {
		return "", "", "rejected"
	}
	var wb bytes.Buffer
	_ = l.ToWire(&wb)
	wire := wb.Bytes()
	got, cat, err := c18Decode(wire)
	if err != nil {
		if cat == "alpn" {
			if known[c18KAlpnLen] {
				kit.Excluded(c18KAlpnLen)
				return "", "", "excluded"
			}
			return c18KAlpnLen, fmt.Sprintf("text %q compiled to %x: %v", text, wire, err), "accepted"
		}
		return "wire-not-rfc9460-" + cat, fmt.Sprintf("text %q compiled to %x: %v", text, wire, err), "accepted"
	}
	mapped := false
	for _, kv := range got {
		if kv.Key == 6 {
			for _, a := range kv.Vals {
				mapped = mapped || c18IsMapped(a)
			}
		}
	}
	wantV := append([]byte{0, 64, '=', 0, 0, 0, 60, 0, 0, 0, 0, 0, 0, 0, 0, 0, 1, 0}, wire...)
	if len(mr) != 1 || !bytes.Equal(mr[0].Value, wantV) {
		return "line-params-differ", fmt.Sprintf("line %q: value %x, want %x", line, mr[0].Value, wantV), "accepted"
	}
	rdata := wantV[15:]
	msgb := append([]byte{0, 0, 64, 0, 1, 0, 0, 0, 60, byte(len(rdata) >> 8), byte(len(rdata))}, rdata...)
	rr, _, uerr := dns.UnpackRR(msgb, 0)
	if uerr != nil {
		if !(mapped && strings.Contains(uerr.Error(), "expected ipv6, got ipv4")) {
			return "miekg-unpack", fmt.Sprintf("text %q: record %x: miekg/dns: %v", text, msgb, uerr), "accepted"
		}
	} else {
		sv, ok := rr.(*dns.SVCB)
		if !ok {
			return "miekg-type", fmt.Sprintf("text %q decoded as %T", text, rr), "accepted"
		}
		mg, err := c18FromMiekg(sv.Value)
		if err != nil || fmt.Sprint(mg) != fmt.Sprint(got) {
			return "miekg-wire-value-mismatch", fmt.Sprintf("text %q wire %x: miekg/dns %v (%v), harness decoder %v", text, wire, mg, err, got), "accepted"
		}
	}
	var tb bytes.Buffer
	l.ToText(&tb)
	var l2 svcb.ParamList
	if err := l2.FromText(tb.Bytes()); err != nil {
		if mapped {
			if known[c18KMapped] {
				kit.Excluded(c18KMapped)
				return "", "", "excluded"
			}
			return c18KMapped, fmt.Sprintf("text %q prints as %q which is rejected: %v", text, tb.Bytes(), err), "accepted"
		}
		return "totext-reparse-rejected", fmt.Sprintf("text %q prints as %q which is rejected: %v", text, tb.Bytes(), err), "accepted"
	}
	var wb2 bytes.Buffer
	_ = l2.ToWire(&wb2)
	if !bytes.Equal(wb2.Bytes(), wire) {
		return "totext-reparse-wire-differs", fmt.Sprintf("text %q prints as %q: wire %x, originally %x", text, tb.Bytes(), wb2.Bytes(), wire), "accepted"
	}
	if len(got) >= 2 {
		return "", "", "accepted-multi"
	}
	return "", "", "accepted"
}

// c18KnownCases are the minimal reproductions of the listed findings.
func c18KnownCases() map[string]c18Case {
	base := func() c18Case {
		return c18Case{Rtype: "H", Owner: "example.com", Target: ".", TTL: 300, Prio: 1}
	}
	m := map[string]c18Case{}
	c := base()
	c.Params = []c18Param{{Key: 6, Addrs: []c18Addr{{Hex: "00000000000000000000ffff01020304", Form: 4}}}}
	m[c18KMapped] = c
	c = base()
	c.Kind = "alpn-long-id"
	c.Params = []c18Param{{Key: 1, Alpn: []string{strings.Repeat("68", 256)}, Bad: true}}
	m[c18KAlpnLen] = c
	c = base()
	c.Kind = "empty-segment"
	c.EmptySegAt = 2
	c.Params = []c18Param{{Key: 1, Alpn: []string{"6832"}}, {Key: 3, Port: "443"}}
	m[c18KEmptySeg] = c
	return m
}

// c18Batch: several lists are parsed one after the other and emitted only
// afterwards; each must come out exactly as it does when handled alone (a
// parsed list owns its wire values: parsing another list must not change them).
func c18Batch(cs []c18Case) (key, msg string, n int) {
	type one struct {
		text  string
		alone []byte
		l     *svcb.ParamList
		rec   dnsdata.Record
		vals  [][]byte
	}
	var kept []*one
	for i := range cs {
		text := cs[i].listText()
		var l0 svcb.ParamList
		if l0.FromText([]byte(text)) != nil {
			continue
		}
		var wb bytes.Buffer
		if l0.ToWire(&wb) != nil {
			continue
		}
		o := &one{text: text, alone: append([]byte(nil), wb.Bytes()...)}
		if mr, err := new(dnsdata.Codec).ConvertLn([]byte(cs[i].line())); err == nil {
			for _, m := range mr {
				o.vals = append(o.vals, append([]byte(nil), m.Value...))
			}
		}
		kept = append(kept, o)
		_ = i
	}
	codec := new(dnsdata.Codec)
	ki := 0
	for i := range cs {
		if ki >= len(kept) || cs[i].listText() != kept[ki].text {
			continue
		}
		o := kept[ki]
		ki++
		o.l = new(svcb.ParamList)
		if err := o.l.FromText([]byte(o.text)); err != nil {
			return "batch-acceptance-differs", fmt.Sprintf("list %q accepted alone, rejected in a sequence: %v", o.text, err), len(kept)
		}
		if o.vals != nil {
			rec, err := codec.DecodeLn([]byte(cs[i].line()))
			if err != nil {
				return "batch-acceptance-differs", fmt.Sprintf("line %q accepted alone, rejected in a sequence: %v", cs[i].line(), err), len(kept)
			}
			o.rec = rec
		}
	}
	for _, o := range kept[:ki] {
		var wb bytes.Buffer
		if err := o.l.ToWire(&wb); err != nil {
			return "batch-towire-error", fmt.Sprintf("list %q: %v", o.text, err), len(kept)
		}
		if !bytes.Equal(wb.Bytes(), o.alone) {
			return "wire-changed-by-later-parse", fmt.Sprintf("list %q emits %x when emitted right away, %x after %d more lists were parsed", o.text, o.alone, wb.Bytes(), ki-1), len(kept)
		}
		if o.rec != nil {
			mr, err := o.rec.MarshalMap()
			if err != nil || len(mr) != len(o.vals) {
				return "batch-marshal-error", fmt.Sprintf("list %q: MarshalMap %v (%d records, alone %d)", o.text, err, len(mr), len(o.vals)), len(kept)
			}
			for j := range mr {
				if !bytes.Equal(mr[j].Value, o.vals[j]) {
					return "wire-changed-by-later-parse", fmt.Sprintf("line with list %q stores %x when converted right away, %x after %d more lines were decoded", o.text, o.vals[j], mr[j].Value, ki-1), len(kept)
				}
			}
		}
	}
	return "", "", len(kept)
}

func TestC18(t *testing.T) {
	if f := kit.ReplayFile(); f != "" {
		var c c18Case
		kit.LoadReplay(t, f, &c)
		kit.Case(c)
		if len(c.Batch) > 0 {
			if key, msg, _ := c18Batch(c.Batch); key != "" {
				kit.Fail(t, "C18", key, c, "%s", msg)
			}
		} else if c.IsSoup {
			if key, msg, _ := c18Soup(c.Soup, nil); key != "" {
				kit.Fail(t, "C18", key, c, "%s", msg)
			}
		} else if key, msg, _ := c18One(&c); key != "" {
			kit.Fail(t, "C18", key, c, "%s", msg)
		}
		kit.Eval()
		return
	}
	known := map[string]bool{}
	kc := c18KnownCases()
	for _, k := range []string{c18KMapped, c18KAlpnLen, c18KEmptySeg} {
		if !kit.IsKnown("C18", k) {
			continue
		}
		known[k] = true
		if kit.Shard() != 0 {
			continue
		}
		c := kc[k]
		c.Text = c.listText()
		if key, _, _ := c18One(&c); key == k {
			kit.KnownSeen("C18", k)
		} else {
			kit.Note("listed finding %s did not reproduce on its minimal case (got %q)", k, key)
		}
	}

	c18Enumerate(t)

	kit.SetRapid(kit.N(600000, 24000000))
	rapid.Check(t, kit.Prop("C18", func(t *rapid.T) {
		c := c18GenCase(t, known)
		kit.Case(c)
		key, msg, outcome := c18One(&c)
		if key != "" {
			if m := c18Minimise(c, key); true {
				if k2, msg2, _ := c18One(&m); k2 == key {
					c, msg = m, msg2
				}
			}
			kit.Fail(t, "C18", key, c, "%s", msg)
		}
		c18Classify(&c, outcome)
		kit.Sample(c)
	}))

	// sequences: 2..5 lists parsed one after the other, emitted afterwards
	kit.SetRapid(kit.N(60000, 2400000))
	rapid.Check(t, kit.Prop("C18", func(t *rapid.T) {
		n := rapid.IntRange(2, 5).Draw(t, "nbatch")
		c := c18Case{}
		for i := 0; i < n; i++ {
			c.Batch = append(c.Batch, c18GenCase(t, known))
		}
		kit.Case(c)
		key, msg, kept := c18Batch(c.Batch)
		if key != "" {
			kit.Fail(t, "C18", key, c, "%s", msg)
		}
		kit.Class(fmt.Sprintf("sequence:%d-accepted-lists", kept))
		if kept >= 2 {
			sig := "seq"
			for i := range c.Batch {
				sig += "|" + c.Batch[i].listText()
			}
			kit.NonTrivial(sig)
		}
		kit.Sample(c)
	}))

	kit.SetRapid(kit.N(300000, 8000000))
	rapid.Check(t, kit.Prop("C18", func(t *rapid.T) {
		c := c18Case{IsSoup: true, Soup: c18GenSoup(t)}
		kit.Case(c)
		key, msg, outcome := c18Soup(c.Soup, known)
		if key != "" {
			kit.Fail(t, "C18", key, c, "%s", msg)
		}
		kit.Class("soup-" + outcome)
		if outcome == "rejected" || outcome == "accepted-multi" {
			kit.NonTrivial("soup|" + c.Soup)
		}
		kit.Sample(c)
	}))
}
